"""Unbounded safety of the generic cache protocol: Apalache discharges CacheCurrent as an inductive invariant of
spec/Cache.tla (Init => IndInv at length 0, IndInv /\\ Next => IndInv' at length 1).  The annotated module is generated
from Cache.tla itself, so there is one source of truth.  With the deviation InvalKeepsLive the induction step must fail."""
import os, re, subprocess, tempfile, shutil
ROOT = os.path.abspath(os.path.join(os.path.dirname(os.path.abspath(__file__)), '..'))


def annotated(devs):
    s = open(os.path.join(ROOT, 'spec', 'Cache.tla')).read()
    s = s.replace('EXTENDS Integers, TLC', 'EXTENDS Integers')
    s = s.replace('CONSTANT Devs', 'CONSTANT\n  \\* @type: Set(Str);\n  Devs', 1)
    s = s.replace('VARIABLES ver, live, ntr', 'VARIABLES\n  \\* @type: Int;\n  ver,\n  \\* @type: Int;\n  live,\n  \\* @type: Int;\n  ntr')
    s = s.replace('cvars == <<ver, live, ntr>>', '\\* @type: <<Int, Int, Int>>;\ncvars == <<ver, live, ntr>>')
    s = re.sub(r'-+ MODULE Cache -+', '---- MODULE CacheApa ----', s, count=1)
    tail = '''ConstInit == Devs = %s
IndInit == ver \\in Nat /\\ ntr \\in Nat /\\ live \\in {None, ver}
IndInv == ver >= 0 /\\ ntr >= 0 /\\ CacheCurrent
=============================================================================''' % devs
    body = s.rstrip()
    while body.endswith('='): body = body[:-1]
    return body + tail


def run(devs='{}', timeout=300):
    """Returns dict(base=..., step=...) with 'ok' | 'counterexample' | 'unavailable: ...' each."""
    tmp = tempfile.mkdtemp(prefix='apa_')
    out = {}
    try:
        open(os.path.join(tmp, 'CacheApa.tla'), 'w').write(annotated(devs))
        for name, args in (('base', ['--init=CInit', '--length=0']), ('step', ['--init=IndInit', '--length=1'])):
            try:
                r = subprocess.run(['apalache-mc', 'check', '--cinit=ConstInit', '--next=CNext', '--inv=IndInv', '--out-dir=' + os.path.join(tmp, 'o')] + args + ['CacheApa.tla'],
                                   cwd=tmp, capture_output=True, text=True, timeout=timeout)
                txt = r.stdout + r.stderr
                if 'The outcome is: NoError' in txt: out[name] = 'ok'
                elif 'The outcome is: Error' in txt or 'violation' in txt.lower(): out[name] = 'counterexample'
                else: out[name] = 'unavailable: exit %d %s' % (r.returncode, txt[-200:].replace('\n', ' '))
            except Exception as e:
                out[name] = 'unavailable: %s' % e
        return out
    finally:
        shutil.rmtree(tmp, ignore_errors=True)


if __name__ == '__main__':
    print(run()); print(run('{"InvalKeepsLive"}'))
