#!/usr/bin/env python3
"""Compare a junit xml of the repository test-suite with /root/.vp/BASELINE.json stable_pass."""
import sys, json, xml.etree.ElementTree as ET
base = json.load(open('/root/.vp/BASELINE.json'))
stable = set(base['stable_pass'])
root = ET.parse(sys.argv[1]).getroot()
passed = set()
for tc in root.iter('testcase'):
    name = '%s::%s' % (tc.get('classname'), tc.get('name'))
    if not any(ch.tag in ('failure', 'error', 'skipped') for ch in tc):
        passed.add(name)
missing = sorted(stable - passed)
print('passed=%d stable=%d missing_from_stable=%d new_passes=%d' % (len(passed), len(stable), len(missing), len(passed - stable)))
for m in missing: print('  NOW FAILING:', m)
for m in sorted(passed - stable): print('  newly passing:', m)
sys.exit(1 if missing else 0)
