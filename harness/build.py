"""Build a real rockit OCP from a declaration record emitted by the TLA+ specification.

The declaration format is the one of spec/Catalog.tla; numbers are [num, den] pairs.
Nothing here decides a verdict: this is the replay half of direction A.
"""
import sys, os, io, contextlib
from fractions import Fraction as Fr

NX_WHEEL = '/opt/veriftools/wheels/networkx-3.6.1-py3-none-any.whl'
if NX_WHEEL not in sys.path:
    sys.path.append(NX_WHEEL)
REPO = os.environ.get('ROCKIT_REPO', '/repo')
if REPO not in sys.path:
    sys.path.insert(0, REPO)

import numpy as np
import casadi as ca
import rockit
from rockit import Ocp, MultipleShooting, SingleShooting, DirectCollocation, FreeTime
from rockit import UniformGrid, GeometricGrid, FreeGrid
from rockit.sampling_method import FunctionGrid


def fr(a):
    if a[1] == 0:
        return None
    return Fr(a[0], a[1])


def fl(a):
    return float(Fr(a[0], a[1]))


class Built:
    """Handle on a built OCP: the rockit object plus the symbol tables."""
    def __init__(self):
        self.ocp = None
        self.stage = None
        self.x = []; self.u = []; self.z = []; self.p = []; self.v = []
        self.quad_exprs = []
        self.T_free = False; self.t0_free = False
        self.decl = None


class NodeFun:
    """Picklable node function for FunctionGrid (a lambda could not be saved with ocp.save)."""
    def __init__(self, nodes): self.nodes = list(nodes)
    def __call__(self, N): return list(self.nodes)


def mk_grid(g):
    kw = {}
    if g['lt0']: kw['localize_t0'] = True
    if g['lT'] and g['kind'] != 'free': kw['localize_T'] = True
    if g['hasmin']: kw['min'] = fl(g['min'])
    if g['hasmax']: kw['max'] = fl(g['max'])
    k = g['kind']
    if k == 'uniform':
        return UniformGrid(**kw)
    if k == 'geometric':
        return GeometricGrid(fl(g['growth']), local=bool(g['local']), **kw)
    if k == 'function':
        nodes = [fl(v) for v in g['nodes']]
        return FunctionGrid(NodeFun(nodes), **kw)
    if k == 'density':
        from rockit.sampling_method import DensityGrid
        tau = ca.MX.sym('tau')
        return DensityGrid(2 + 1e-30 * tau, **kw)       # (numerically) constant density: the uniform nodes
    if k == 'free':
        return FreeGrid(**kw)
    raise ValueError(k)


def mk_method(m):
    grid = mk_grid(m['grid'])
    if m['kind'] == 'MS':
        return MultipleShooting(N=m['N'], M=m['M'], intg=m['intg'], grid=grid)
    if m['kind'] == 'SS':
        return SingleShooting(N=m['N'], M=m['M'], intg=m['intg'], grid=grid)
    if m['kind'] == 'DC':
        return DirectCollocation(N=m['N'], M=m['M'], degree=m['degree'], scheme=m['scheme'], grid=grid)
    if m['kind'] == 'SP':
        from rockit import SplineMethod
        return SplineMethod(N=m['N'], M=m['M'], grid=grid)
    raise ValueError(m['kind'])


GRIDKW = {'g': '', 'c': 'control', 'cp': 'control'}


def mx(b, e, st=None):
    """AST -> casadi.MX on the symbols of built OCP b (stage st defaults to the ocp)."""
    st = st or b.stage
    o = e['op']
    if o == 'c': return ca.MX(fl(e['v']))
    if o == 'x': return b.x[e['i'] - 1]
    if o == 'u': return b.u[e['i'] - 1]
    if o == 'z': return b.z[e['i'] - 1]
    if o == 'dx': return st.inf_der(b.x[e['i'] - 1])
    if o == 'inert': return st.inf_inert(mx(b, e['a'], st))
    if o == 'p': return b.p[e['i'] - 1]
    if o == 'v': return b.v[e['i'] - 1]
    if o == 't': return st.t
    if o == 'T': return st.T
    if o == 't0': return st.t0
    if o == 'tf': return st.tf
    if o == 'DT': return st.DT
    if o == 'DTc': return st.DT_control
    if o == 'q': return b.xq[e['i'] - 1]
    if o == 'int': return st.integral(mx(b, b.decl['quads'][e['i'] - 1], st))
    if o in ('add', 'sub', 'mul'):
        a, c = mx(b, e['a'], st), mx(b, e['b'], st)
        return a + c if o == 'add' else a - c if o == 'sub' else a * c
    a = mx(b, e['a'], st)
    if o == 'neg': return -a
    if o == 'sq': return a * a
    if o == 'at_t0': return st.at_t0(a)
    if o == 'at_tf': return st.at_tf(a)
    if o == 'sum': return st.sum(a)
    if o == 'sump': return st.sum(a, include_last=True)
    if o == 'intc': return st.integral(a, grid='control')
    if o == 'off': return st.offset(a, e['o'])
    raise ValueError(o)


def pval(p, N):
    vals = [fl(v) for v in p['val']]
    if p['kind'] == 'g':
        return vals[0]
    return ca.DM(vals).T


def declare_constraint(b, c, st=None):
    st = st or b.stage
    meta = {"stacktrace": [{"cid": c['cid']}]}
    rel = c['rel']
    if rel == 'le': expr = mx(b, c['lhs'], st) <= mx(b, c['rhs'], st)
    elif rel == 'ge': expr = mx(b, c['lhs'], st) >= mx(b, c['rhs'], st)
    elif rel == 'eq': expr = mx(b, c['lhs'], st) == mx(b, c['rhs'], st)
    elif rel == 'box': expr = mx(b, c['lo'], st) <= (mx(b, c['lhs'], st) <= mx(b, c['hi'], st))
    elif rel == 'vle': expr = ca.vertcat(*[mx(b, e, st) for e in c['lhs']]) <= ca.vertcat(*[mx(b, e, st) for e in c['rhs']])
    elif rel == 'vbox':
        lo = ca.vertcat(*[-ca.inf if e['op'] == 'inf' else mx(b, e, st) for e in c['lo']])
        hi = ca.vertcat(*[ca.inf if e['op'] == 'inf' else mx(b, e, st) for e in c['hi']])
        expr = lo <= (ca.vertcat(*[mx(b, e, st) for e in c['lhs']]) <= hi)
    else: raise ValueError(rel)
    kw = dict(include_first=bool(c['incF']), include_last=bool(c['incL']), meta=meta)
    if c['grid'] == 'integrator': kw['grid'] = 'integrator'
    elif c['grid'] == 'roots': kw['grid'] = 'integrator_roots'
    elif c['grid'] == 'inf': kw['grid'] = 'inf'
    elif c['grid'] == 'control': kw['grid'] = 'control'
    s = fr(c['scale'])
    if s != 1: kw['scale'] = float(s)
    if rel == 'vle': kw['scale'] = ca.DM([fl(v) for v in c['vscale']])
    st.subject_to(expr, **kw)


def sym_of(b, sym):
    o = sym['op']
    if o == 'T': return b.ocp.T
    if o == 't0': return b.ocp.t0
    return {'x': b.x, 'u': b.u, 'v': b.v, 'z': b.z}[o][sym['i'] - 1]


def apply_guesses(b, decl):
    """ocp.set_initial for every guess of decl['init'], in order."""
    import numpy as _np
    for g in decl.get('init', []):
        s = sym_of(b, g['sym'])
        if g['form'] == 'const': val = fl(g['vals'][0])
        elif g['form'] == 'expr': val = mx(b, g['e'])
        else:
            vals = [fl(v) for v in g['vals']]
            val = _np.array(vals) if g.get('np') else ca.DM(vals).T
        b.ocp.set_initial(s, val)


def horizon(h):
    if h['kind'] == 'num': return fl(h['v'])
    if h['kind'] == 'free': return FreeTime(fl(h['v']))
    return None  # parameter: set later


def fill(b, st, decl, with_method=True, after_init=False, method_obj=None):
    """Declare the content of one stage (symbols, dynamics, constraints, objective, values, guesses, method) on st."""
    ocp = st
    b.stage = st; b.decl = decl
    b.T_free = decl['T']['kind'] == 'free'; b.t0_free = decl['t0']['kind'] == 'free'
    xb = decl.get('xblocks') or []
    if xb:
        # consecutive scalar model states grouped (column-major) into matrix-valued rockit states
        b.xsyms = []
        for (r, c) in xb:
            X = ocp.state(r, c); b.xsyms.append(X)
            for cc in range(c):
                for rr in range(r):
                    b.x.append(X if r * c == 1 else X[rr, cc])
    else:
        for s in decl['states']:
            b.x.append(ocp.state(scale=fl(s['scale'])) if fr(s['scale']) != 1 else ocp.state())
    for s in decl['controls']:
        b.u.append(ocp.control(scale=fl(s['scale'])) if fr(s['scale']) != 1 else ocp.control())
    zb = decl.get('zblocks') or []
    b.zsyms = []
    for (r, c) in zb:
        Zm = ocp.algebraic(r, c); b.zsyms.append(Zm)
        for cc in range(c):
            for rr in range(r):
                b.z.append(Zm if r * c == 1 else Zm[rr, cc])
    for s in (decl['algs'] if not zb else []):
        b.z.append(ocp.algebraic(scale=fl(s['scale'])) if fr(s['scale']) != 1 else ocp.algebraic())
    pb = decl.get('pblocks') or []
    b.psyms = []
    if pb:
        for (r, c) in pb:
            kind = decl['params'][len(b.p)]['kind']          # a block is global or per-interval as a whole
            Pm = ocp.parameter(r, c) if kind == 'g' else ocp.parameter(r, c, grid=GRIDKW[kind], include_last=(kind == 'cp'))
            b.psyms.append(Pm)
            for cc in range(c):
                for rr in range(r):
                    b.p.append(Pm[rr, cc])
    for p in decl['params'][len(b.p):]:
        b.p.append(ocp.parameter(grid=GRIDKW[p['kind']], include_last=(p['kind'] == 'cp')))
    for v in decl['vars']:
        kw = {}
        if fr(v['scale']) != 1: kw['scale'] = fl(v['scale'])
        b.v.append(ocp.variable(grid=GRIDKW[v['kind']], include_last=(v['kind'] == 'cp'), **kw))
    if decl['T']['kind'] == 'par': ocp.set_T(b.p[decl['T']['i'] - 1])
    if decl['t0']['kind'] == 'par': ocp.set_t0(b.p[decl['t0']['i'] - 1])
    if xb and decl.get('catset'):
        # one assignment for a concatenation of symbols (a matrix first): element-wise meaning
        ocp.set_der(ca.veccat(*b.xsyms), ca.vertcat(*[mx(b, e) for e in decl['rhs']]))
    elif xb:
        i0 = 0
        for X, (r, c) in zip(b.xsyms, xb):
            es = [mx(b, decl['rhs'][i0 + k]) for k in range(r * c)]
            ocp.set_der(X, ca.reshape(ca.vertcat(*es), r, c)); i0 += r * c
    order = list(enumerate(decl['rhs'] if not xb else []))
    # the derivatives are declared last state first: the order of set_der calls means nothing
    order.reverse()
    for i, e in order:
        if decl['dyn'] == 'next':
            ocp.set_next(b.x[i], mx(b, e))
        else:
            ds = fr(decl['states'][i]['dscale'])
            if ds != 1: ocp.set_der(b.x[i], mx(b, e), scale=float(ds))
            else: ocp.set_der(b.x[i], mx(b, e))
    for e in decl['alg']:
        ocp.add_alg(mx(b, e))
    b.xq = []
    if decl.get('qstates'):
        for e in decl['quads']:
            q = ocp.state(quad=True); b.xq.append(q)
            ocp.set_der(q, mx(b, e))
    for c in decl['cons']:
        declare_constraint(b, c)
    for e in decl['obj']:
        ocp.add_objective(mx(b, e))
    i0 = 0
    if pb and decl.get('catset'):
        i0 = sum(r * c for r, c in pb)
        ocp.set_value(ca.veccat(*b.psyms), ca.DM([fl(decl['params'][k]['val'][0]) for k in range(i0)]))
    for Pm, (r, c) in (zip(b.psyms, pb) if not decl.get('catset') else []):
        ncol = len(decl['params'][i0]['val'])          # 1 for a global block, one block per interval otherwise (side by side)
        blocks = [ca.reshape(ca.DM([fl(decl['params'][i0 + k]['val'][j]) for k in range(r * c)]), r, c) for j in range(ncol)]
        ocp.set_value(Pm, ca.horzcat(*blocks)); i0 += r * c
    for i, p in enumerate(decl['params']):
        if i < i0: continue
        if p['val']:
            ocp.set_value(b.p[i], pval(p, decl['method']['N']))
    if not after_init:
        apply_guesses(b, decl)
    if with_method: ocp.method(method_obj if method_obj is not None else mk_method(decl['method']))


def build(decl, solver='ipopt', with_method=True, after_init=False):
    """Declare the OCP described by decl on a fresh rockit.Ocp (stdout noise is swallowed)."""
    b = Built(); b.decl = decl
    buf = io.StringIO()
    with contextlib.redirect_stdout(buf):
        t0 = horizon(decl['t0']); T = horizon(decl['T'])
        ocp = Ocp(t0=0 if t0 is None else t0, T=1 if T is None else T)
        b.ocp = ocp
        fill(b, ocp, decl, with_method=False, after_init=after_init)
        if solver: ocp.solver(solver, {"print_time": False, "ipopt": {"print_level": 0}} if solver == 'ipopt' else {})
        if with_method: ocp.method(mk_method(decl['method']))
    return b


def mx_parent(parts, e):
    """Parent-level expression: St(s, e) evaluates e on stage s."""
    o = e['op']
    if o == 'c': return ca.MX(fl(e['v']))
    if o == 'pw': return parts[0].ocp._verif_pw
    if o == 'pq': return parts[0].ocp._verif_pq
    if o == 'st':
        p = parts[e['s'] - 1]
        return mx(p, e['a'], p.stage)
    if o in ('add', 'sub', 'mul'):
        a, c = mx_parent(parts, e['a']), mx_parent(parts, e['b'])
        return a + c if o == 'add' else a - c if o == 'sub' else a * c
    a = mx_parent(parts, e['a'])
    return -a if o == 'neg' else a * a


def build_multi(md, solver='ipopt'):
    """A multi-stage OCP: stages declared directly, or (md['clone']) cloned from one template with overridden t0/T."""
    from rockit import Stage
    B = Built(); B.decl = md; B.parts = []
    buf = io.StringIO()
    with contextlib.redirect_stdout(buf):
        ocp = Ocp(); B.ocp = ocp
        if md.get('pown'):
            # declared in this order on purpose: the variable before the parameter
            ocp._verif_pw = ocp.variable(); ocp._verif_pq = ocp.parameter()
            ocp.set_value(ocp._verif_pq, fl(md['stages'][0]['pq']))
        if md.get('late') and solver:
            ocp.solver(solver, {"print_time": False, "ipopt": {"print_level": 0}} if solver == 'ipopt' else {})
        if md.get('clone'):
            d1 = md['stages'][0]
            tb = Built(); tb.ocp = ocp
            # the template has a horizon of its own (never the one of a clone): every clone overrides both t0 and T, also with 0
            def own(h, v):
                from rockit import FreeTime as _FT
                return _FT(v) if isinstance(h, _FT) else v
            tmpl = Stage(t0=own(horizon(d1['t0']), 7.5), T=own(horizon(d1['T']), 3.25))
            fill(tb, tmpl, d1)
            B.template = tmpl; B.template_built = tb
            for si_, d in enumerate(md['stages']):
                if md.get('late') and si_ == len(md['stages']) - 1:
                    from observe import quiet as _q
                    _q(B.parts[0].stage.sample, B.parts[0].x[0], grid='control')      # the stages so far are transcribed once
                st = ocp.stage(tmpl, t0=horizon(d['t0']), T=horizon(d['T']))
                p = Built(); p.ocp = ocp; p.stage = st; p.decl = d
                p.x, p.u, p.z, p.p, p.v = tb.x, tb.u, tb.z, tb.p, tb.v
                # every clone gets its own parameter values
                for i_, pr_ in enumerate(d['params']):
                    if pr_['val']: st.set_value(tb.p[i_], pval(pr_, d['method']['N']))
                B.parts.append(p)
        else:
            import json as _json
            shared = {}      # users commonly hand the same method instance to several stages
            for si_, d in enumerate(md['stages']):
                if md.get('late') and si_ == len(md['stages']) - 1:
                    from observe import quiet as _q
                    _q(B.parts[0].stage.sample, B.parts[0].x[0], grid='control')
                st = ocp.stage(t0=horizon(d['t0']), T=horizon(d['T']))
                p = Built(); p.ocp = ocp
                key = _json.dumps(d['method'], sort_keys=True)
                if key not in shared: shared[key] = mk_method(d['method'])
                fill(p, st, d, method_obj=shared[key])
                B.parts.append(p)
        for c in md['pcons']:
            l, r = mx_parent(B.parts, c['lhs']), mx_parent(B.parts, c['rhs'])
            expr = l <= r if c['rel'] == 'le' else l >= r if c['rel'] == 'ge' else l == r
            target = ocp
            if md.get('pon', 'parent') != 'parent' and c['lhs']['op'] == 'st' and c['rhs']['op'] == 'st':
                target = B.parts[(c['lhs'] if md['pon'] == 'later' else c['rhs'])['s'] - 1].stage
            target.subject_to(expr, meta={"stacktrace": [{"cid": c['cid']}]})
        for e in md['pobj']:
            ocp.add_objective(mx_parent(B.parts, e))
        if not md.get('late'): ocp.solver(solver, {"print_time": False, "ipopt": {"print_level": 0}})
    return B


def through_save_load(b):
    """C18: save the built OCP, load it, and return a Built on the *loaded* object whose symbols are found through the
    public accessors (same order as declared).  The original stays usable."""
    import tempfile
    decl = b.decl
    fd, fn = tempfile.mkstemp(suffix='.rockit'); os.close(fd)
    buf = io.StringIO()
    try:
        with contextlib.redirect_stdout(buf):
            b.ocp.save(fn)
            ocp2 = Ocp.load(fn)
    finally:
        os.unlink(fn)
    b2 = Built(); b2.ocp = ocp2; b2.stage = ocp2; b2.decl = decl
    b2.T_free = b.T_free; b2.t0_free = b.t0_free
    def entries(syms, shapes):
        # matrix-valued symbols: the scalar model quantities are their entries, column-major
        if not shapes: return list(syms)
        out = []
        for S, (r, c) in zip(syms, shapes):
            out += [S if r * c == 1 else S[rr, cc] for cc in range(c) for rr in range(r)]
        return out
    b2.x = entries(list(ocp2.states), decl.get('xblocks') or []); b2.u = list(ocp2.controls)
    b2.z = entries(list(ocp2.algebraics), decl.get('zblocks') or [])
    b2.xsyms = list(ocp2.states) if decl.get('xblocks') else []; b2.zsyms = list(ocp2.algebraics) if decl.get('zblocks') else []
    b2.xq = list(ocp2.qstates) if decl.get('qstates') else []
    kindkey = {'g': '', 'c': 'control', 'cp': 'control+'}
    it = {k: iter(list(ocp2.parameters[k])) for k in ('', 'control', 'control+')}
    b2.p = []; b2.psyms = []
    for (r, c) in (decl.get('pblocks') or []):
        # a matrix-valued parameter: the scalar model parameters are its entries, column-major
        S = next(it[kindkey[decl['params'][len(b2.p)]['kind']]]); b2.psyms.append(S)
        b2.p += [S if r * c == 1 else S[rr, cc] for cc in range(c) for rr in range(r)]
    b2.p += [next(it[kindkey[p['kind']]]) for p in decl['params'][len(b2.p):]]
    it = {k: iter(list(ocp2.variables[k])) for k in ('', 'control', 'control+')}
    b2.v = [next(it[kindkey[v['kind']]]) for v in decl['vars']]
    b2.quad_exprs = []
    # the loaded object is an ordinary OCP: it accepts the usual edits on the symbols its accessors return
    with contextlib.redirect_stdout(buf):
        for i, p in enumerate(decl['params']):
            if p['val'] and not (decl.get('pblocks')):
                ocp2.set_value(b2.p[i], pval(p, decl['method']['N']))
    return b2
