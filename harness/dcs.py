"""C02 for all degrees: special probes (helper states on a straight line, state/time-free right-hand side) whose
predictions hold for every node vector; see spec/ScenDCs.tla."""
import traceback
from fractions import Fraction as Fr
import numpy as np
import casadi as ca
import build as _b
from rockit import Ocp, DirectCollocation, UniformGrid, GeometricGrid, FreeTime
from replay_nlp import close, isbad, bag_compare
from observe import quiet, locate
from splines import _inputs

fl = lambda a: float(Fr(a[0], a[1]))


def replay(rec):
    sc = rec['sc']; N = sc['N']; M = sc['M']; d = sc['degree']
    res = []
    try:
        T = fl(rec['T']); t0 = fl(rec['t0'])
        ocp = Ocp(t0=t0, T=FreeTime(T) if sc['hz'] == 'fT' else T)
        x = ocp.state(); u = ocp.control(); pc = ocp.parameter(grid='control')
        ocp.set_der(x, u + pc)
        ocp.add_objective(ocp.integral(3 + u * pc) + ocp.at_tf(x) ** 2)
        ocp.set_value(pc, ca.DM([fl(v) for v in rec['pc']]).T)
        ocp.solver('ipopt')
        grid = UniformGrid() if sc['grid'] == 'uni' else GeometricGrid(fl(rec['growth']))
        ocp.method(DirectCollocation(N=N, M=M, degree=d, scheme=sc['scheme'], grid=grid))
        quiet(lambda: ocp._transcribed)
        opti, vx, vp = _inputs(ocp)
        nx = vx.numel()
        pvv = np.array(opti.debug.value(vp, opti.initial())).reshape(-1)
        rng = np.random.RandomState(11)
        pts = [(rng.uniform(0.5, 1.5, nx), pvv), (rng.uniform(-1.5, -0.5, nx), pvv)]
        tau = ca.collocation_points(d, sc['scheme'])
        xi_loc = locate(quiet(ocp.sample, x, grid='integrator')[1], opti, pts)
        xr_loc = locate(quiet(ocp.sample, x, grid='integrator_roots')[1], opti, pts)
        u_loc = locate(quiet(ocp.sample, u, grid='control')[1], opti, pts)
        xv = np.zeros(nx)
        for k in range(N):
            l_ = u_loc[k]; xv[l_[0]] = fl(rec['u'][k]) / l_[1]
            for l in range(M):
                a = fl(rec['a'][k][l]); b = fl(rec['b'][k][l])
                s0 = xi_loc[k * M + l]; xv[s0[0]] = a / s0[1]
                for j in range(d):
                    r_ = xr_loc[(k * M + l) * d + j]; xv[r_[0]] = (a + b * tau[j]) / r_[1]
        sN = xi_loc[N * M]; xv[sN[0]] = fl(rec['xN']) / sN[1]
        if sc['hz'] == 'fT':
            tl = locate(quiet(ocp.value, ocp.T), opti, pts)[0]; xv[tl[0]] = T / tl[1]
        F = ca.Function('nlp', [vx, vp], [opti.f, opti.g, opti.lbg, opti.ubg])
        f, g, lb, ub = [np.array(v).reshape(-1) for v in F(xv, pvv)]
        eq = sorted(abs(g[i] - lb[i]) for i in range(len(g)) if lb[i] == ub[i])
        pred = [v for k in range(N) for l in range(M) for v in [rec['colloc'][k][l]] * d] + [v for k in range(N) for l in range(M) for v in [rec['cont'][k][l]]]
        res.append(('C02.special:rows',) + bag_compare(eq, pred, absval=True))
        if isbad(rec['f']): res.append(('C05.f:special', 'inconclusive', ''))
        else: res.append(('C05.f:special', 'ok' if abs(float(f[0]) - fl(rec['f'])) <= 1e-9 * max(1, abs(fl(rec['f']))) else 'mismatch', 'f=%r predicted %s' % (float(f[0]), Fr(*rec['f']))))
        return {'results': res, 'error': None}
    except Exception as e:
        return {'results': res + [('C02.special', 'error', '%s: %s' % (type(e).__name__, (str(e).splitlines() or [''])[-1][:200]))], 'error': traceback.format_exc()}
