"""C06 / DensityGrid: observe the normalised control grid of real DensityGrid objects (several densities and the same N
in one process) and let TLC validate the observations against the declarative equidistribution (TraceDensity.tla)."""
import json, os, re, tempfile, shutil
import numpy as np
import casadi as ca
import build as _b
from rockit import Ocp, MultipleShooting
from rockit.sampling_method import DensityGrid
from observe import quiet
import tlc

DENSITIES = {'1+3t2': [[1, 1], [0, 1], [3, 1]], '1+t': [[1, 1], [1, 1]], '3-2t': [[3, 1], [-2, 1]], 'const': [[2, 1]],
             '1+4t3': [[1, 1], [0, 1], [0, 1], [4, 1]]}


def observe_grid(dens_id, N, t0=0.5, T=2.0):
    tau = ca.MX.sym('tau')
    co = DENSITIES[dens_id]
    rho = sum((c[0] / c[1]) * tau ** j for j, c in enumerate(co))
    if len(co) == 1: rho = rho + 0 * tau
    ocp = Ocp(t0=t0, T=T)
    x = ocp.state(); u = ocp.control(); ocp.set_der(x, u)
    ocp.add_objective(ocp.integral(u ** 2)); ocp.solver('ipopt')
    ocp.method(MultipleShooting(N=N, M=1, intg='rk', grid=DensityGrid(rho)))
    ts, _ = quiet(ocp.sample, x, grid='control')
    t = np.array(ca.evalf(ts)).reshape(-1)
    return [(float(v) - t0) / T for v in t]


def observe_dense_edges(spec, N, t0=0.5, T=2.0):
    """DenseEdgesGrid(multiplier, edge_frac): nodes through the public API, and the share of the grid object's own density
    between consecutive observed nodes (composite Simpson, 400 panels per interval)."""
    from rockit.sampling_method import DenseEdgesGrid
    mult, frac = spec[1:].split('-')
    # a maximal interval length (never active here) and a free horizon: every interval must get its own bound row
    from rockit import FreeTime
    grid = DenseEdgesGrid(multiplier=float(mult), edge_frac=float(frac), max=50.0)
    ocp = Ocp(t0=t0, T=FreeTime(T))
    x = ocp.state(); u = ocp.control(); ocp.set_der(x, u)
    ocp.add_objective(ocp.integral(u ** 2)); ocp.solver('ipopt')
    ocp.method(MultipleShooting(N=N, M=1, intg='rk', grid=grid))
    ts, _ = quiet(ocp.sample, x, grid='control')
    opti = ocp._method.opti
    tv = np.array(opti.debug.value(ts, opti.initial())).reshape(-1)
    n = [(float(v) - t0) / T for v in tv]
    # rows that depend on the horizon variable alone and carry the bound 50: their slopes wrt T are the interval fractions
    J = ca.Function('J', [opti.x, opti.p], [ca.jacobian(opti.g, opti.x), opti.ubg])
    x0 = np.array(opti.debug.value(opti.x, opti.initial())).reshape(-1)
    Jv, ub = J(x0, np.array(opti.debug.value(opti.p, opti.initial())).reshape(-1))
    Jv = np.array(ca.DM(Jv)); ub = np.array(ub).reshape(-1)
    slopes = []
    for i in range(Jv.shape[0]):
        nz = np.nonzero(Jv[i])[0]
        if len(nz) == 1 and abs(ub[i] - 50.0) < 1e-9: slopes.append(float(Jv[i, nz[0]]))
    observe_dense_edges.slopes = slopes
    rho = ca.Function('rho', [grid.t], [grid.density])
    def mass(a, b, m=400):
        xs = np.linspace(a, b, 2 * m + 1)
        ys = np.array(rho(xs.reshape(1, -1))).reshape(-1)
        return (b - a) / (6 * m) * (ys[0] + ys[-1] + 4 * ys[1:-1:2].sum() + 2 * ys[2:-1:2].sum())
    total = mass(0.0, 1.0, 4000)
    return n, [mass(n[k], n[k + 1]) / total for k in range(N)]


def run(pairs, Ns):
    obs = []
    for (a, b) in pairs:
        for N in Ns:
            # two grids with different densities and the same N, one after the other in the same process
            for d in (a, b):
                if d.startswith('E'):
                    n, m = observe_dense_edges(d, N)
                    obs.append({'id': '%s|%s|N%d|%s' % (a, b, N, d), 'density': [], 'N': N, 'mass': [[int(round(v * 4096)), 4096] for v in m],
                                'bslopes': [[int(round(v * 4096)), 4096] for v in observe_dense_edges.slopes],
                                'nodes': [[int(round(v * 4096)), 4096] for v in n], 'raw': n})
                    continue
                n = observe_grid(d, N)
                obs.append({'id': '%s|%s|N%d|%s' % (a, b, N, d), 'density': DENSITIES[d], 'N': N,
                            'nodes': [[int(round(v * 128)), 128] for v in n], 'raw': n})
    tmp = tempfile.mkdtemp(prefix='vden_')
    try:
        fn = os.path.join(tmp, 'obs.ndjson')
        with open(fn, 'w') as f:
            for o in obs: f.write(json.dumps(o) + '\n')
        os.makedirs(os.path.join(tmp, 'w'))
        out, st = tlc.run_tlc('TraceDensity', 'TraceDensity.cfg', env={'TRACE_FILE': fn}, tmp=os.path.join(tmp, 'w'))
        verdicts = dict((m.group(1), m.group(2) == 'TRUE') for m in re.finditer(r'<<"DENSITY", "([^"]+)", (TRUE|FALSE)>>', out))
        if len(verdicts) != len(obs): raise tlc.TlcError('density validation incomplete:\n' + out[-1500:])
        return obs, verdicts, st
    finally:
        shutil.rmtree(tmp, ignore_errors=True)


def revalidate(rec):
    a, b, N, d = rec['id'].split('|')
    obs, verdicts, st = run([(a, b)], [int(N[1:])])
    bad = [o['id'] for o in obs if not verdicts[o['id']]]
    return {'results': [('C06.d:density', 'mismatch' if bad else 'ok', 'rejected: %s' % bad)], 'error': None}
