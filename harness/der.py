"""C16 conformance: ocp.der(e) evaluated at rational points against TLC's symbolic derivative."""
import traceback
from fractions import Fraction as Fr
import numpy as np
import casadi as ca
from build import build, mx, fl
from replay_nlp import close, isbad
from observe import quiet


def replay(rec):
    sc = rec['sc']
    try:
        b = quiet(build, rec['decl'], None, False)
        e = mx(b, rec['e'])
        d = e
        for _ in range(sc['order']): d = quiet(b.ocp.der, d)
        pt = rec['point']
        def blocks(syms, scal, vals, shapes):
            # matrix-valued symbols take their values column-major
            if not syms: return list(scal), [fl(v) for v in vals]
            out, i0 = [], 0
            for (r, c) in shapes:
                out.append(ca.reshape(ca.DM([fl(v) for v in vals[i0:i0 + r * c]]), r, c)); i0 += r * c
            return list(syms), out
        xs, xv = blocks(getattr(b, 'xsyms', []), b.x, pt['x'], rec['decl'].get('xblocks') or [])
        ps, pv = blocks(getattr(b, 'psyms', []), b.p, pt['p'], rec['decl'].get('pblocks') or [])
        syms = xs + b.u + ps + b.v + [b.ocp.t] + list(b.xq)
        vals = xv + [fl(v) for v in pt['u']] + pv + [fl(v) for v in pt['v']] + [fl(pt['t'])] + [fl(v) for v in pt['q']][:len(b.xq)]
        f = ca.Function('d', syms, [d, e])
        dv, ev = f(*vals)
        res = []
        for name, obs, pred in (('C16.a:der%d' % sc['order'], float(dv), rec['value']), ('C16.a:e', float(ev), rec['e_value'])):
            if isbad(pred): res.append((name, 'inconclusive', ''))
            else: res.append((name, 'ok' if close(obs, pred) else 'mismatch', 'obs=%r pred=%s' % (obs, Fr(*pred))))
        # history: the dynamics of the first state are declared again after der() was used; der() follows the declaration
        if sc['e'] in ('d6', 'd1') and sc['order'] == 1 and not rec['decl'].get('xblocks'):
            try:
                quiet(b.ocp.set_der, b.x[0], mx(b, rec['decl']['rhs'][0]) + 1)
                d2 = quiet(b.ocp.der, e)
                dv2 = float(ca.Function('d2', syms, [d2])(*vals))
                # de/dx1 at the point, by the same symbolic expression
                want2 = float(dv) + float(ca.Function('j', syms, [ca.jacobian(e, b.x[0])])(*vals))
                res.append(('C16.c:der_after_set_der', 'ok' if abs(dv2 - want2) <= 1e-9 * max(1, abs(want2)) else 'mismatch', 'der(e) after re-declaring der(x1) + 1: %r, expected %r' % (dv2, want2)))
            except Exception as ex:
                res.append(('C16.c:der_after_set_der', 'error', '%s: %s' % (type(ex).__name__, (str(ex).splitlines() or [''])[-1][:160])))
        # der() of an expression that mentions a control is documented to raise -- also next to explicit time
        if sc['e'] == 'd6' and sc['order'] == 1 and sc['seed'] % 3 == 2:
            b3 = quiet(build, rec['decl'], None, False)
            for name, mk in (('t*u', lambda: b3.ocp.t * b3.u[0]), ('x*u', lambda: b3.x[0] * b3.u[0]), ('t*t+u', lambda: b3.ocp.t ** 2 + b3.u[0])):
                try:
                    quiet(b3.ocp.der, mk()); res.append(('C16.b:reject:' + name, 'mismatch', 'der(%s) returned silently' % name))
                except Exception:
                    res.append(('C16.b:reject:' + name, 'ok', ''))
        # control chains of order k: der walks down k members, the lowest is a control, one more raises
        if sc['e'] == 'd6' and sc['order'] == 1 and sc['seed'] % 3 == 1:
            for k in (1, 2, 3):
                b2 = quiet(build, rec['decl'], None, False)
                u = b2.ocp.control(order=k)
                cur = u; ok = True; det = ''
                try:
                    for j in range(k):
                        cur = b2.ocp.der(cur)
                    is_ctrl = any(ca.is_equal(cur, c_) for c_ in b2.ocp.controls)
                    if not is_ctrl: ok = False; det = 'lowest member of an order-%d chain is not a control' % k
                    try:
                        b2.ocp.der(cur); ok = False; det = 'derivative beyond the chain did not raise'
                    except Exception:
                        pass
                except Exception as ex:
                    ok = False; det = 'walking the chain raised %s' % ex
                res.append(('C16.b:chain%d' % k, 'ok' if ok else 'mismatch', det))
        return {'results': res, 'error': None}
    except Exception as e:
        return {'results': [('C16.a', 'error', '%s: %s' % (type(e).__name__, (str(e).splitlines() or [''])[-1][:200]))], 'error': traceback.format_exc()}
