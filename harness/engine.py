"""Check engine: runs scenario families (TLC generation + replay in a process pool), classifies
mismatches into VIOLATION / KNOWN-FINDING, writes replay files and evidence."""
import os, sys, json, re, time, hashlib, traceback, importlib
from multiprocessing import get_context

HERE = os.path.dirname(os.path.abspath(__file__))
ROOT = os.path.abspath(os.path.join(HERE, '..'))
sys.path.insert(0, HERE)
import tlc as tlcmod

KF_PATH = os.path.join(ROOT, 'known_findings.json')
# (VERIF_OUT: where a run against a scratch worktree -- seedtool regress -- leaves its replays and evidence)
REPLAYS = os.path.join(os.environ.get('VERIF_OUT', ROOT), 'replays')
EVID = os.path.join(os.environ.get('VERIF_OUT', ROOT), 'evidence')


def load_known():
    if not os.path.exists(KF_PATH): return []
    return json.load(open(KF_PATH)).get('findings', [])


def _worker(args):
    modname, fn, rec = args
    os.environ.setdefault('OMP_NUM_THREADS', '1')
    try:
        mod = importlib.import_module(modname)
        return getattr(mod, fn)(rec)
    except Exception as e:
        return {'results': [('harness', 'crash', '%s: %s' % (type(e).__name__, e))], 'error': traceback.format_exc()}


def pool_map(modname, fn, recs, procs=16):
    if not recs: return []
    for r in recs:          # remembered in the replay file: properties run several engines
        if isinstance(r, dict): r['_engine'] = [modname, fn]
    ctx = get_context('fork')
    with ctx.Pool(min(procs, max(1, len(recs)))) as p:
        return p.map(_worker, [(modname, fn, r) for r in recs], chunksize=max(1, len(recs) // (procs * 8)))


class Report:
    """Accumulates the outcome of a property check."""
    def __init__(self, pid, tier, seed):
        self.pid = pid; self.tier = tier; self.seed = seed
        self.t0 = time.time()
        self.states = 0; self.transitions = 0
        self.evaluations = 0
        self.sigs = set()
        self.clause_counts = {}
        self.samples = []
        self.violations = []     # (clause, detail, record)
        self.known_hits = {}     # finding key -> count
        self.known_example = {}
        self.other = {}
        self.machinery = []
        self.notes = []
        self.mc_runs = []
        self.inconclusive = 0
        self.assumptions = []

    def add_tlc(self, stats):
        self.states += stats.get('distinct', 0)
        self.transitions += stats.get('states', 0)
        self.mc_runs.append(stats)

    def count(self, clause, status):
        d = self.clause_counts.setdefault(clause, {})
        d[status] = d.get(status, 0) + 1


def owned(clause, patterns):
    return any(re.match(p, clause) for p in patterns)


def match_known(pid, clause, detail, rec, known):
    """A mismatch is a known finding iff an *open* entry for this property matches clause and scenario."""
    for k in known:
        if k.get('status') != 'open' or k['property'] != pid: continue
        if not re.match(k['clause'], clause): continue
        if 'detail' in k and not re.search(k['detail'], detail or ''): continue
        ok = True
        for path, allowed in k.get('where', {}).items():
            cur = rec
            try:
                for part in path.split('.'):
                    cur = cur[int(part)] if isinstance(cur, list) else cur[part]
            except Exception:
                ok = False; break
            if cur not in allowed: ok = False; break
        if ok: return k
    return None


def process_results(rep, recs, outs, own_patterns, known, sig_fn=None, clause_base=None):
    """Fold replay outputs into the report."""
    for rec, out in zip(recs, outs):
        rep.evaluations += 1
        sig = sig_fn(rec) if sig_fn else json.dumps(rec.get('sc', rec), sort_keys=True)
        nontrivial = False
        for clause, status, detail in out['results']:
            base = clause.split(':')[0] if clause_base is None else clause_base(clause)
            if status == 'crash':
                rep.machinery.append((clause, detail, out.get('error')))
                continue
            if not owned(clause, own_patterns):
                if status in ('mismatch', 'error'):
                    rep.other[base] = rep.other.get(base, 0) + 1
                continue
            rep.count(base, status)
            if status == 'ok': nontrivial = True
            elif status == 'inconclusive': rep.inconclusive += 1
            elif status in ('mismatch', 'error'):
                nontrivial = True
                k = match_known(rep.pid, clause, detail, rec, known)
                if k:
                    rep.known_hits[k['key']] = rep.known_hits.get(k['key'], 0) + 1
                    rep.known_example.setdefault(k['key'], (clause, detail, rec))
                else:
                    rep.violations.append((clause, '%s: %s' % (status, detail), rec, out.get('error')))
        if nontrivial: rep.sigs.add(hashlib.sha1(sig.encode()).hexdigest())
        if len(rep.samples) < 3: rep.samples.append(rec.get('sc', None) or {k: rec[k] for k in list(rec)[:3]})


def write_replay(pid, clause, detail, rec, err=None, engine=None):
    os.makedirs(REPLAYS, exist_ok=True)
    body = {'property': pid, 'clause': clause, 'detail': detail, 'engine': engine, 'record': rec, 'traceback': err}
    h = hashlib.sha1(json.dumps([clause, rec.get('sc', rec)], sort_keys=True, default=str).encode()).hexdigest()[:12]
    path = os.path.join(REPLAYS, '%s-%s.json' % (pid, h))
    json.dump(body, open(path, 'w'), indent=1, default=str)
    return path


def finish(rep, level=None, engine=None, extra_cov=None):
    level = level or ('fault_enumeration' if rep.pid == 'C20' else 'model_checking')
    """Print verdict lines, write evidence, return exit code."""
    pid = rep.pid
    known = load_known()
    for k in known:
        if k['property'] == pid and k.get('status') == 'open' and k['key'] in rep.known_hits:
            print('KNOWN-FINDING: property=%s %s [%s; %d scenario(s) this run]' % (pid, k['what'], k['key'], rep.known_hits[k['key']]))
    code = 0
    seen = set()
    for clause, detail, rec, err in rep.violations:
        path = write_replay(pid, clause, detail, rec, err, ['record', 'revalidate'] if clause.startswith('C13.trace') else ['gentrace', 'revalidate'] if clause.startswith('C13.g') else ['density', 'revalidate'] if clause.startswith('C06.d') else engine)
        key = clause.split(':')[0]
        if (key, path) in seen: continue
        seen.add((key, path))
        if len(seen) <= 25:
            print('VIOLATION property=%s replay=%s' % (pid, path))
            print('  clause=%s %s' % (clause, (detail or '')[:300]))
        code = 1
    if rep.machinery:
        for c, d, e in rep.machinery[:5]:
            print('MACHINERY-FAILURE %s %s' % (c, d)); print(e or '')
        code = 2 if code == 0 else code
    wall = time.time() - rep.t0
    cov = {
        'states': rep.states, 'transitions': max(rep.transitions, rep.states),
        'traces_validated_against_impl': rep.evaluations,
        'evaluations': rep.evaluations, 'distinct_nontrivial': len(rep.sigs),
        'rule': 'scenarios are enumerated by TLC from the bounded catalogues of the scenario modules; one is distinct by its '
                'scenario record and non-trivial when at least one owned clause was decided (ok or mismatch) on it',
        'samples': rep.samples or [None],
        'clauses': rep.clause_counts, 'inconclusive_clause_evaluations': rep.inconclusive,
        'known_findings_hit': rep.known_hits, 'other_property_mismatches_seen': rep.other,
        'tlc_runs': rep.mc_runs, 'exhaustive': rep.tier == 'thorough' and False,
    }
    if extra_cov: cov.update(extra_cov)
    ev = {'property_id': pid, 'tier': rep.tier, 'seed': rep.seed, 'level': level, 'coverage': cov,
          'assumptions': rep.assumptions, 'wall_s': round(wall, 2), 'violations': len(rep.violations)}
    os.makedirs(EVID, exist_ok=True)
    if code != 2:
        json.dump(ev, open(os.path.join(EVID, pid + '.json'), 'w'), indent=1, default=str)
    print('%s tier=%s seed=%d scenarios=%d distinct=%d tlc_states=%d violations=%d known=%s inconclusive=%d wall=%.1fs' % (
        pid, rep.tier, rep.seed, rep.evaluations, len(rep.sigs), rep.states, len(rep.violations), dict(rep.known_hits), rep.inconclusive, wall))
    for c in sorted(rep.clause_counts): print('   %-28s %s' % (c, rep.clause_counts[c]))
    if rep.other: print('   (mismatches on clauses owned by other properties: %s)' % rep.other)
    return code
