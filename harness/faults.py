"""C20 conformance: inject one specification fault (catalogue of spec/Faults.tla) into a well-posed
declaration script at the given position and check that the real library raises before any NLP reaches
the solver.  Scenarios and expected outcomes come from TLC (ScenFault.tla)."""
import traceback
import casadi as ca
import build as _b
from rockit import Ocp, MultipleShooting, SingleShooting, DirectCollocation
from rockit.direct_method import OptiWrapper
from observe import quiet

IPOPT = {"print_time": False, "ipopt": {"print_level": 0, "sb": "yes"}}


def method_of(name):
    if name == 'MS': return MultipleShooting(N=2, intg='rk')
    if name == 'SS': return SingleShooting(N=2, intg='rk')
    if name == 'DC': return DirectCollocation(N=2)
    if name == 'SP':
        from rockit import SplineMethod
        return SplineMethod(N=3)
    raise ValueError(name)


class Ctx:
    pass


_BADGRID = [0]


def script(meth, where, fault):
    """The well-posed declaration as an ordered list of named steps (closures over a context)."""
    c = Ctx()
    steps = []
    def s_ocp():
        c.ocp = Ocp(t0=0, T=1)
        c.st = c.ocp.stage(t0=0, T=1) if where == 'sub' else c.ocp
    def s_syms():
        c.x = c.st.state(); c.u = c.st.control(); c.p = c.st.parameter()
    def s_dyn():
        if fault == 'no_next': return
        if meth == 'SP': c.st.set_der(c.x, c.u)           # integrator chain
        else: c.st.set_der(c.x, -c.x + c.u * c.p)
    def s_next():
        pass
    def s_obj():
        c.st.add_objective(c.st.at_tf((c.x - 1) ** 2) + c.st.integral(c.u ** 2))
        if where == 'sub': c.ocp.add_objective(0 * c.ocp.at_t0(c.st.T) if False else 0)
    def s_con():
        c.st.subject_to(c.st.at_t0(c.x) == 0.5)
        c.st.subject_to(c.u <= 5 + (0 if meth == 'SP' else c.p))
    def s_val():
        c.st.set_value(c.p, 2)
    def s_solver():
        c.ocp.solver('ipopt', IPOPT)
    def s_method():
        c.st.method(method_of(meth))
    steps = [('ocp', s_ocp), ('syms', s_syms), ('dyn', s_dyn), ('obj', s_obj), ('con', s_con), ('val', s_val),
             ('solver', s_solver), ('method', s_method)]
    drop = {'no_der': 'dyn', 'no_value': 'val', 'no_method': 'method', 'no_solver': 'solver'}.get(fault)
    if fault == 'no_next':
        # a discrete-time model with the update rule of one state missing
        def s_dyn2():
            c.x2 = c.st.state()
            c.st.set_next(c.x, c.x + c.u * c.p)
        steps[2] = ('dyn', s_dyn2)
    if drop: steps = [s for s in steps if s[0] != drop]
    return c, steps


def inject(c, fault, meth):
    st = c.st
    if fault == 'signal_objective': st.add_objective(c.x)
    elif fault == 'nonscalar_objective': st.add_objective(st.at_tf(ca.vertcat(c.x, c.x)))
    elif fault == 'set_value_nonparam': st.set_value(c.x, 3)
    elif fault == 'set_value_quadstate':
        c.xq = st.state(quad=True); st.set_der(c.xq, c.x ** 2); st.set_value(c.xq, 3)
    elif fault == 'set_value_bspline_variable':
        c.vb = st.variable(grid='bspline', order=2); st.set_value(c.vb, 3)
    elif fault == 'inf_time_dependent': st.subject_to(c.x + st.t <= 7, grid='inf')
    elif fault == 'inf_algebraic':
        c.z = st.algebraic(); st.add_alg(c.z - 2 * c.x); st.subject_to(c.x + c.z <= 70, grid='inf')
    elif fault == 'set_initial_param': st.set_initial(c.p, 3)
    elif fault == 'set_initial_unknown': st.set_initial(ca.MX.sym('w'), 3)
    elif fault == 'unknown_grid_subject_to':
        # near misses of the valid names included
        names = ['foo', 'integ', 'roots', 'control ', 'integrator_root', 'Control', 'int']
        _BADGRID[0] += 1
        st.subject_to(c.x <= 7, grid=names[_BADGRID[0] % len(names)])
    elif fault == 'unknown_grid_sample': c.post = lambda: st.sample(c.x, grid='foo')
    elif fault == 'foreign_symbol_constraint': st.subject_to(c.x <= 7 + ca.MX.sym('w'))
    elif fault == 'foreign_symbol_objective': st.add_objective(st.at_tf(c.x * ca.MX.sym('w')))
    elif fault == 'foreign_symbol_ode':
        c.x3 = st.state(); st.set_der(c.x3, c.x + ca.MX.sym('w'))
    elif fault == 'false_constant_constraint': st.subject_to(ca.MX(2) <= 1)
    elif fault == 'alg_explicit':
        c.z = st.algebraic(); st.add_alg(c.z - 2 * c.x)
    elif fault == 'spline_timevar':
        c.x3 = st.state(); c.u3 = st.control(); st.set_der(c.x3, c.u3 + st.t)
    elif fault == 'spline_nonlin':
        c.x3 = st.state(); c.u3 = st.control(); st.set_der(c.x3, c.u3 * c.x3)
    elif fault == 'horizon_in_ode':
        c.x3 = st.state(); st.set_der(c.x3, c.u * st.T)
    elif fault == 'roots_shooting': st.subject_to(c.x <= 7, grid='integrator_roots')
    elif fault == 'alg_explicit_euler':
        st.method((MultipleShooting if meth == 'MS' else SingleShooting)(N=2, intg='expl_euler'))
        c.z = st.algebraic(); st.add_alg(c.z - 2 * c.x)
    elif fault == 'false_after_fill':
        # false only once the (fixed) horizon is written in: T = 1
        st.subject_to(st.T <= 0.5)
    elif fault == 'spline_affine':
        c.x3 = st.state(); c.u3 = st.control(); st.set_der(c.x3, c.u3 + 1)
    elif fault == 'unknown_grid_integral': st.add_objective(st.integral(c.x ** 2, grid='foo'))
    elif fault == 'unknown_grid_sum': st.add_objective(st.sum(c.x ** 2, grid='integrator'))
    elif fault == 'unknown_grid_sum_plus': st.add_objective(st.sum(c.x ** 2, grid='foo', include_last=True))
    elif fault == 'state_without_der':
        # a further (quadrature) state whose derivative is never declared -- also when it is added after a successful solve
        c.x3 = st.state(quad=(meth == 'DC'))
    elif fault == 'alg_without_algebraic': st.add_alg(c.x - 2 * c.u)
    elif fault == 'spline_quadstate':
        c.xq = st.state(quad=True); st.set_der(c.xq, c.x ** 2); st.add_objective(st.at_tf(c.xq))
    elif fault == 'inf_nonpolynomial':
        import random as _r
        e = _r.Random(hash((meth, st is c.ocp)) % 1000).choice([lambda x: ca.sin(x), lambda x: ca.exp(x), lambda x: ca.sqrt(x + 50), lambda x: 1 / (x + 50), lambda x: x / 2 + ca.cos(x)])
        st.subject_to(e(c.x) <= 7, grid='inf')
    elif fault == 'no_value_clone':
        # two clones of a template whose parameter gets a value in one clone only (the sub-stage of the script is left as it is)
        from rockit import Stage
        t = Stage(T=1)
        tx = t.state(); tu = t.control(); tp = t.parameter()
        t.set_der(tx, -tx + tu * tp); t.add_objective(t.integral(tu ** 2)); t.subject_to(t.at_t0(tx) == 1)
        t.method(method_of(meth))
        s1 = c.ocp.stage(t, t0=2); s2 = c.ocp.stage(t, t0=3)
        s1.set_value(tp, 1.5)
    elif fault == 'inf_no_guarantee':
        st.method((MultipleShooting if meth == 'MS' else SingleShooting)(N=2, intg='expl_euler'))
        st.subject_to(c.x <= 7, grid='inf')
    else: raise ValueError(fault)


class SolverSpy:
    """Counts NLPs handed to the solver (Opti.solve / solve_limited)."""
    def __init__(self):
        self.calls = 0
    def __enter__(self):
        self._solve = ca.Opti.solve; self._lim = ca.Opti.solve_limited
        spy = self
        def solve(o, *a, **k):
            spy.calls += 1
            return spy._solve(o, *a, **k)
        def solve_limited(o, *a, **k):
            spy.calls += 1
            return spy._lim(o, *a, **k)
        ca.Opti.solve = solve; ca.Opti.solve_limited = solve_limited
        return self
    def __exit__(self, *a):
        ca.Opti.solve = self._solve; ca.Opti.solve_limited = self._lim


def run(sc):
    fault, meth, where, pos = sc['fault'], sc['meth'], sc['where'], sc['pos']
    c, steps = script(meth, where, fault)
    c.post = None
    log = []
    raised = None
    calls_before = 0
    with SolverSpy() as spy:
        try:
            names = [n for n, _ in steps]
            early_at = names.index('syms') + 1
            for i, (n, fn) in enumerate(steps):
                if pos == 'early' and i == early_at and fault not in ('none',) and n != 'ocp':
                    inject(c, fault, meth); log.append('inject')
                fn(); log.append(n)
            if pos == 'after_solve':
                quiet(c.ocp.solve); log.append('solve#1')
                calls_before = spy.calls
                inject(c, fault, meth); log.append('inject')
            elif pos == 'late' and fault != 'none' and fault not in ('no_der', 'no_value', 'no_method', 'no_solver', 'no_next'):
                inject(c, fault, meth); log.append('inject')
            if c.post:
                quiet(c.post); log.append('post')
            quiet(c.ocp.solve); log.append('solve')
        except Exception as e:
            raised = '%s: %s' % (type(e).__name__, (str(e).strip().splitlines() or [''])[-1][:160])
        calls = spy.calls - calls_before
    return raised, calls, log


def replay(rec):
    sc = rec['sc']; expect = rec['expect']
    try:
        raised, calls, log = quiet(run, sc)
    except Exception as e:
        return {'results': [('harness', 'crash', str(e))], 'error': traceback.format_exc()}
    tag = 'C20.%s' % sc['fault']
    if expect == 'ok':
        ok = raised is None and calls >= 1
        # solver non-convergence is not a rejection of the specification
        if raised and ('return_status' in raised or 'Solver failed' in raised): ok = True
        return {'results': [('C20.control:' + sc['meth'], 'ok' if ok else 'mismatch', 'well-posed control script: raised=%s solver calls=%d log=%s' % (raised, calls, log))], 'error': None}
    if calls > 0:
        return {'results': [(tag, 'mismatch', 'ill-posed specification reached the solver (%d call(s)); raised=%s; log=%s' % (calls, raised, log))], 'error': None}
    if raised is None:
        return {'results': [(tag, 'mismatch', 'no exception and no solver call; log=%s' % log)], 'error': None}
    return {'results': [(tag, 'ok', raised)], 'error': None}
