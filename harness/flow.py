"""C03 conformance on exactly solvable families: discrete_system / sys_simulator of the real library against the exact
flow (TLC, rational) and against the specification's own scheme values."""
import traceback
from fractions import Fraction as Fr
import numpy as np
import casadi as ca
from build import build, mx, fl
from replay_nlp import close, isbad
from observe import quiet
from rockit import MultipleShooting

fv = lambda a: float(Fr(a[0], a[1]))


def rel_close(a, b, tol):
    return abs(a - b) <= tol * max(1.0, abs(b))


def run_system(decl, sc, x0, u, p, intg):
    d = dict(decl); d['quads'] = decl['quads']
    b = quiet(build, d, 'ipopt', False)
    ocp = b.ocp
    ocp.add_objective(ocp.integral(mx(b, decl['quads'][0])) + ocp.at_tf(b.x[0]) ** 2)
    ocp.method(MultipleShooting(N=1, M=sc['M'], intg=intg))
    F = quiet(ocp.discrete_system)
    pv = [fv(p)] if decl['params'] else []
    r = F(x0=x0, u=[u], T=fv(sc['T']), t0=fv(sc['t0']), p=ca.vertcat(*pv), z0=ca.DM.zeros(len(decl['algs']), 1))
    return np.array(r['xf']).reshape(-1), np.array(r['qf']).reshape(-1), b


def run_dc(decl, sc, x0, u, p, scheme, degree, N, growth, history=False):
    """The simulation problem (initial state and control fixed) transcribed by DirectCollocation and solved.
    history: the problem is first solved on another horizon, then moved to the right one with set_t0 / set_T."""
    from rockit import DirectCollocation, UniformGrid, GeometricGrid
    b = quiet(build, dict(decl), 'ipopt', False)
    ocp = b.ocp
    if history: ocp.set_t0(fv(sc['t0']) + 1.5); ocp.set_T(2.5 * fv(sc['T']))
    else: ocp.set_t0(fv(sc['t0'])); ocp.set_T(fv(sc['T']))
    I = ocp.integral(mx(b, decl['quads'][0]))
    # the control is pinned by the objective (an equality would leave IPOPT without degrees of freedom)
    ocp.add_objective(ocp.sum((b.u[0] - u) ** 2))
    for xi, v in zip(b.x, x0): ocp.subject_to(ocp.at_t0(xi) == v)
    if decl['params']: ocp.set_value(b.p[0], fv(p))
    ocp.solver('ipopt', {"print_time": False, "ipopt": {"print_level": 0, "sb": "yes", "tol": 1e-12}})
    ocp.method(DirectCollocation(N=N, M=sc['M'], scheme=scheme, degree=degree,
                                 grid=UniformGrid() if growth == 1 else GeometricGrid(growth)))
    def solve():
        # the verdict is on the numbers: a solver that stops on a tiny search direction has still solved the linear system
        try: return quiet(ocp.solve)
        except RuntimeError: return ocp.non_converged_solution
    sol = solve()
    if history:
        ocp.set_t0(fv(sc['t0'])); ocp.set_T(fv(sc['T']))
        sol = solve()
    xf = [float(np.array(sol.sample(xi, grid='control')[1]).reshape(-1)[-1]) for xi in b.x]
    return xf, float(sol.value(I))


def replay(rec):
    sc = rec['sc']; decl = rec['decl']
    x0 = [fv(v) for v in rec['x0']]; u = fv(rec['u'])
    res = []
    try:
        dae = bool(decl['algs'])
        for intg, key in ((('rk', 'rk'), ('expl_euler', 'euler')) if not dae else ()):
            xf, qf, b = run_system(decl, sc, x0, u, rec['p'], intg)
            pred = rec[key]
            ok = all(isbad(p) or close(float(a), p) for a, p in zip(xf, pred['xf'])) and (len(qf) == 0 or all(isbad(p) or close(float(a), p) for a, p in zip(qf, pred['qf'])))
            inc = any(isbad(p) for p in pred['xf'] + pred['qf'])
            res.append(('C03.b:scheme:' + intg, 'inconclusive' if inc and ok else 'ok' if ok else 'mismatch',
                        'discrete_system xf=%s qf=%s, scheme of the specification xf=%s qf=%s' % (xf, qf, [str(Fr(*p)) for p in pred['xf']], [str(Fr(*p)) for p in pred['qf']])))
            # error against the exact flow: zero where the scheme is exact, else it must shrink with M
            if not inc:
                err = max(abs(float(a) - fv(e)) for a, e in zip(xf, rec['exact']['xf']))
                res.append(('C03.info:err:%s:M%d' % (intg, sc['M']), 'ok', '%g' % err))
        # CasADi integrators: within a loose tolerance of the exact flow (O(1) defects are in scope)
        for intg in (('cvodes', 'collocation') if not dae else ('idas', 'collocation')):
            # casadi's fixed-step collocation is a discretisation itself: only judged on the finer subdivisions
            if intg == 'collocation' and sc['M'] < 4: continue
            try:
                xf, qf, b = run_system(decl, sc, x0, u, rec['p'], intg)
                # quadratures are not error-controlled by CVODES' defaults: 1e-3 for them, 1e-4 for the states
                ok = all(rel_close(float(a), fv(e), 1e-4) for a, e in zip(xf, rec['exact']['xf']))
                # CVODES does not error-control quadratures by default (quad_err_con=False): qf is only required to be in the right ballpark
                # ... and IDAS' quadratures of an integrand that mentions z are off by O(0.1) with CasADi's defaults (reproduced with a bare
                # casadi.integrator; exact only with quad_err_con): the library cannot be blamed, only the state is judged there
                if intg != 'idas':
                    ok = ok and all(rel_close(float(a), fv(e), 1e-3 if intg == 'collocation' else 5e-2) for a, e in zip(qf, rec['exact']['qf']))
                res.append(('C03.b:casadi:' + intg, 'ok' if ok else 'mismatch', 'xf=%s qf=%s exact xf=%s qf=%s' % (xf, qf, [fv(e) for e in rec['exact']['xf']], [fv(e) for e in rec['exact']['qf']])))
            except Exception as e:
                msg = (str(e).splitlines() or [''])[-1][:160]
                res.append(('C03.b:casadi:' + intg, 'error', '%s: %s' % (type(e).__name__, msg)))
        # DirectCollocation with 4 collocation points reproduces these flows exactly: the states are polynomials of degree <= 4
        # (F1, F2) or pure quadratures of degree <= 2d-2 (F4), and so is the integrand -- on any grid and subdivision
        for scheme in ('radau', 'legendre'):
            for N, growth, hist in ((1, 1, False), (2, 1, False), (3, 2, False), (2, 2, True)):
                if (sc['M'] > 2 and N > 1) or sc['M'] > 4: continue
                try:
                    xf, qf = run_dc(decl, sc, x0, u, rec['p'], scheme, 4, N, growth, hist)
                    ok = all(rel_close(a, fv(e), 1e-7) for a, e in zip(xf, rec['exact']['xf'])) and rel_close(qf, fv(rec['exact']['qf'][0]), 1e-7)
                    res.append(('C03.b:collocation:%s' % scheme, 'ok' if ok else 'mismatch', 'N=%d growth=%d M=%d%s: xf=%s integral=%s, exact xf=%s integral=%s' % (
                        N, growth, sc['M'], ' after a horizon edit' if hist else '', xf, qf, [fv(e) for e in rec['exact']['xf']], fv(rec['exact']['qf'][0]))))
                except Exception as e:
                    res.append(('C03.b:collocation:%s' % scheme, 'error', '%s: %s' % (type(e).__name__, (str(e).splitlines() or [''])[-1][:160])))
        # ... and with 2 points it is a scheme of order 3 (radau) / 4 (legendre): the error on F4 must shrink at that rate
        if sc['fam'] == 'F4':
            for scheme in ('radau', 'legendre'):
                xf, qf = run_dc(decl, sc, x0, u, rec['p'], scheme, 2, 2, 2)
                err = max(abs(a - fv(e)) for a, e in zip(xf, rec['exact']['xf']))
                res.append(('C03.info:err:dc-%s2:M%d' % (scheme, sc['M']), 'ok', '%g' % err))
        # sys_simulator describes the same flow
        if dae: return {'results': res, 'error': None}
        b = quiet(build, decl, 'ipopt', False)
        sim = quiet(b.ocp.sys_simulator, 'rk', {"number_of_finite_elements": 40})
        pv = [fv(rec['p'])] if decl['params'] else []
        r = sim(x=x0, u=[u], p=ca.vertcat(*pv), t0=fv(sc['t0']), dt=fv(sc['T']), z_initial_guess=ca.DM(0, 1))
        xs = np.array(r['xf']).reshape(-1)
        ok = all(rel_close(float(a), fv(e), 1e-4) for a, e in zip(xs, rec['exact']['xf']))
        res.append(('C03.c:sys_simulator', 'ok' if ok else 'mismatch', 'xf=%s exact=%s' % (xs, [fv(e) for e in rec['exact']['xf']])))
        return {'results': res, 'error': None}
    except Exception as e:
        return {'results': res + [('C03.b', 'error', '%s: %s' % (type(e).__name__, (str(e).splitlines() or [''])[-1][:200]))], 'error': traceback.format_exc()}
