"""C19 conformance: ocp.to_function(...) against the imperative pipeline, for scenarios generated from ToFunction.tla.
TLC supplies the data the call must work on (listed arguments from the call, the others as they were when the function
was made); the harness runs the real function and a freshly written OCP driven imperatively with exactly that data."""
import traceback
import numpy as np
import casadi as ca
import build as _b
from rockit import Ocp, MultipleShooting, SingleShooting, DirectCollocation
from observe import quiet

N = 3


def opts(iters):
    return {"print_time": False, "error_on_fail": False, "ipopt": {"print_level": 0, "sb": "yes", "max_iter": iters, "tol": 1e-10}}


class P:
    pass


def mk(meth, iters, scaled=False, cat=False):
    o = P()
    ocp = Ocp(t0=0, T=1); o.ocp = ocp
    o.A = ocp.parameter(2, 2) if cat else None
    o.x = ocp.state(scale=2) if scaled else ocp.state(); o.u = ocp.control(scale=4) if scaled else ocp.control(); o.p = ocp.parameter(); o.q = ocp.parameter()
    ocp.set_der(o.x, -o.x + o.u + o.p)
    ocp.add_objective(ocp.at_tf((o.x - o.q) ** 2) + ocp.sum(o.u ** 2) + ocp.integral((o.x - 1) ** 2))
    if cat: ocp.add_objective(ocp.at_tf(o.x) * (o.A[0, 0] + 2 * o.A[1, 0] + 3 * o.A[0, 1] + 4 * o.A[1, 1]))
    ocp.subject_to(ocp.at_t0(o.x) == o.p / 2)
    ocp.subject_to(o.u <= 5)
    ocp.solver('ipopt', opts(iters))
    ocp.method({'MS': lambda: MultipleShooting(N=N, intg='rk'), 'SS': lambda: SingleShooting(N=N, intg='rk'),
                'DC': lambda: DirectCollocation(N=N, M=2, degree=2)}[meth]())
    return o


def mk_multi(meth, iters):
    """Two stages cloned from one template; the template parameter a has its own value in each clone
    (p: value in stage 1, q: value in stage 2)."""
    from rockit import Stage
    o = P()
    ocp = Ocp(); o.ocp = ocp
    tmpl = Stage(T=1)
    o.x = tmpl.state(); o.u = tmpl.control(); o.a = tmpl.parameter()
    tmpl.set_der(o.x, -o.x + o.u + o.a)
    tmpl.add_objective(tmpl.at_tf((o.x - 2 * o.a) ** 2) + tmpl.sum(o.u ** 2) + tmpl.integral((o.x - 1) ** 2))
    tmpl.subject_to(o.u <= 5)
    tmpl.method({'MS': lambda: MultipleShooting(N=N, intg='rk'), 'SS': lambda: SingleShooting(N=N, intg='rk'),
                 'DC': lambda: DirectCollocation(N=N, M=2, degree=2)}[meth]())
    o.s1 = ocp.stage(tmpl, t0=0); o.s2 = ocp.stage(tmpl, t0=1)
    ocp.subject_to(o.s1.at_t0(o.x) == 0.5)
    ocp.subject_to(o.s2.at_t0(o.x) == o.s1.at_tf(o.x))
    ocp.solver('ipopt', opts(iters))
    return o


def replay_multi(rec):
    sc = rec['sc']; data = rec['data']
    args = sorted(sc['args'])
    try:
        a = quiet(mk_multi, sc['meth'], sc['iters'])
        quiet(a.s1.set_value, a.a, sc['pre']['p']); quiet(a.s2.set_value, a.a, sc['pre']['q'])
        ocp = a.ocp
        res_of = lambda o: [o.s1.sample(o.x, grid='control')[1], o.s2.sample(o.x, grid='control')[1], o.s2.sample(o.u, grid='control-')[1]]
        argexpr = {'p': lambda: a.s1.value(a.a), 'q': lambda: a.s2.value(a.a)}
        argl = [argexpr[n]() for n in args]; resl = res_of(a)
        f = quiet(lambda: ocp.to_function('f', argl, resl))
        if sc['post'] == 'p': quiet(a.s1.set_value, a.a, 3)
        elif sc['post'] == 'q': quiet(a.s2.set_value, a.a, 3)
        if sc.get('remake'): f = quiet(lambda: ocp.to_function('f', argl, resl))
        ra = quiet(lambda: f(*[sc['vals'][n] for n in args]))
        ra = [np.array(r).reshape(-1) for r in ra]
        b = quiet(mk_multi, sc['meth'], sc['iters'])
        quiet(b.s1.set_value, b.a, data['p']); quiet(b.s2.set_value, b.a, data['q'])
        try:
            sol = quiet(b.ocp.solve)
        except Exception:
            sol = b.ocp.non_converged_solution
        rb = [np.array(sol(st).sample(b.x, grid='control')[1]).reshape(-1) for st in (b.s1, b.s2)] + [np.array(sol(b.s2).sample(b.u, grid='control-')[1]).reshape(-1)]
        res = []
        for name, x, y in zip(('x1', 'x2', 'u2'), ra, rb):
            ok = len(x) == len(y) and np.allclose(x, y, rtol=1e-6, atol=1e-6)
            res.append(('C19.a:multi:' + name, 'ok' if ok else 'mismatch', 'to_function %s vs imperative %s (data %s)' % (np.round(x, 6).tolist(), np.round(y, 6).tolist(), data)))
        return {'results': res, 'error': None}
    except Exception as e:
        return {'results': [('C19.a:multi', 'error', '%s: %s' % (type(e).__name__, (str(e).splitlines() or [''])[-1][:200]))], 'error': traceback.format_exc()}


def ramp(g, n):
    # a guess that differs from node to node
    return [g + 0.5 * k for k in range(n)]


def assign(o, d):
    if o.A is not None:
        # one assignment for the concatenation (matrix first): column-major entries of A, then p
        o.ocp.set_value(ca.veccat(o.A, o.p), ca.DM([0.1, 0.2, 0.3, 0.4, d['p']])); o.ocp.set_value(o.q, d['q'])
    else:
        o.ocp.set_value(o.p, d['p']); o.ocp.set_value(o.q, d['q'])
    if d['gx'] != 0: o.ocp.set_initial(o.x, ca.DM(ramp(d['gx'], N + 1)).T)
    if d['gu'] != 0: o.ocp.set_initial(o.u, d['gu'])


def results_of(o):
    # (the integrator grid shows the helper states of DirectCollocation with M = 2 as well)
    return [o.ocp.sample(o.x, grid='control')[1], o.ocp.sample(o.u, grid='control-')[1], o.ocp.sample(o.x, grid='integrator')[1]]


def replay(rec):
    sc = rec['sc']; data = rec['data']
    if sc.get('multi'): return replay_multi(rec)
    args = sorted(sc['args'])
    try:
        a = quiet(mk, sc['meth'], sc['iters'], sc.get('scaled', False), sc.get('cat', False))
        quiet(assign, a, sc['pre'])
        ocp = a.ocp
        ss = sc['meth'] == 'SS'     # under SingleShooting only the initial state is a decision variable
        argexpr = {'p': lambda: ocp.value(a.p), 'q': lambda: ocp.value(a.q),
                   'gx': (lambda: ocp.value(ocp.at_t0(a.x))) if ss else (lambda: ocp.sample(a.x, grid='control')[1]),
                   'gu': lambda: ocp.sample(a.u, grid='control-')[1]}
        argl = [argexpr[n]() for n in args]; resl = results_of(a)
        f = quiet(lambda: ocp.to_function('f', argl, resl))
        # a later imperative change must not leak into the function object
        if sc['post'] == 'p': quiet(ocp.set_value, a.p, 3)
        elif sc['post'] == 'q': quiet(ocp.set_value, a.q, 3)
        elif sc['post'] == 'gx': quiet(ocp.set_initial, a.x, ca.DM(ramp(3, N + 1)).T)
        elif sc['post'] == 'edit': quiet(ocp.subject_to, a.u <= 50)
        if sc['post'] == 'edit':
            # the edit re-transcribes: sampled expressions of the earlier transcription are not valid any more
            argl = [argexpr[n]() for n in args]; resl = results_of(a)
        # ... but a function made afterwards (same name, same expression objects) works on the values current then
        if sc.get('remake'): f = quiet(lambda: ocp.to_function('f', argl, resl))
        argval = {'p': lambda: sc['vals']['p'], 'q': lambda: sc['vals']['q'],
                  'gx': (lambda: ramp(sc['vals']['gx'], N + 1)[0]) if ss else (lambda: ca.DM(ramp(sc['vals']['gx'], N + 1)).T),
                  'gu': lambda: ca.DM.ones(1, N) * sc['vals']['gu']}
        ra = quiet(lambda: f(*[argval[n]() for n in args]))
        ra = [np.array(r).reshape(-1) for r in (ra if isinstance(ra, (list, tuple)) else [ra])]
        b = quiet(mk, sc['meth'], sc['iters'], sc.get('scaled', False), sc.get('cat', False))
        quiet(assign, b, data)
        if sc['post'] == 'edit': quiet(b.ocp.subject_to, b.u <= 50)
        try:
            sol = quiet(b.ocp.solve)
        except Exception:
            sol = b.ocp.non_converged_solution
        rb = [np.array(sol.sample(b.x, grid='control')[1]).reshape(-1), np.array(sol.sample(b.u, grid='control-')[1]).reshape(-1),
              np.array(sol.sample(b.x, grid='integrator')[1]).reshape(-1)]
        res = []
        for name, x, y in zip(('x', 'u', 'xi'), ra, rb):
            ok = len(x) == len(y) and np.allclose(x, y, rtol=1e-6, atol=1e-6)
            res.append(('C19.a:' + name, 'ok' if ok else 'mismatch', 'to_function %s vs imperative %s (data %s)' % (np.round(x, 6).tolist(), np.round(y, 6).tolist(), data)))
        return {'results': res, 'error': None}
    except Exception as e:
        return {'results': [('C19.a', 'error', '%s: %s' % (type(e).__name__, (str(e).splitlines() or [''])[-1][:200]))], 'error': traceback.format_exc()}


def zarg():
    """The guess argument "z" of DirectCollocation.to_function (one column per control node, the guess of the algebraic
    variable over the interval) against set_initial(z, c): with iteration limit 0 the result is the starting point."""
    res = []
    def mk(N, M, degree, scheme):
        ocp = Ocp(T=N)
        x = ocp.state(2); z = ocp.algebraic(); u = ocp.control()
        ocp.set_der(x, ca.vertcat(z * x[0] - x[1] + u, x[0])); ocp.add_alg(z - (1 - x[1] ** 2))
        ocp.add_objective(ocp.integral(ca.sumsqr(x) + u ** 2)); ocp.subject_to(-1 <= (u <= 1)); ocp.subject_to(ocp.at_t0(x) == ca.vertcat(0, 1))
        ocp.method(DirectCollocation(N=N, M=M, degree=degree, scheme=scheme))
        ocp.solver('ipopt', opts(0))
        return ocp, x, z, u
    for (N, M, degree, scheme, with_states) in ((4, 1, 2, 'radau', False), (3, 2, 2, 'legendre', False), (3, 2, 3, 'radau', True), (3, 3, 1, 'radau', False)):
        tag = 'N%dM%dd%d%s%s' % (N, M, degree, scheme[0], 'x' if with_states else '')
        try:
            X0 = np.round(np.random.RandomState(1).rand(2, N + 1), 3)
            ocp, x, z, u = quiet(mk, N, M, degree, scheme)
            outs = [ocp.sample(z, grid='integrator_roots')[1], ocp.sample(x, grid='integrator')[1]]
            if with_states: f = quiet(lambda: ocp.to_function('f', [ocp.sample(x, grid='control')[1], "z"], outs)); got = f(X0, 0.7 * np.ones((1, N + 1)))
            else: f = quiet(lambda: ocp.to_function('f', ["z"], outs)); got = f(0.7 * np.ones((1, N + 1)))
            o2, x2, z2, u2 = quiet(mk, N, M, degree, scheme)
            if with_states: quiet(o2.set_initial, x2, X0)
            quiet(o2.set_initial, z2, 0.7)
            try: sol = quiet(o2.solve)
            except Exception: sol = o2.non_converged_solution
            ref = [sol.sample(z2, grid='integrator_roots')[1], sol.sample(x2, grid='integrator')[1].T]
            d = max(float(np.abs(np.array(a).squeeze() - np.array(b).squeeze()).max()) for a, b in zip(got, ref))
            res.append(('C19.a:zarg:' + tag, 'ok' if d < 1e-7 else 'mismatch', 'to_function("z") deviates from set_initial(z)/solve/sample by %.3g at the starting point' % d))
        except Exception as e:
            res.append(('C19.a:zarg:' + tag, 'error', '%s: %s' % (type(e).__name__, (str(e).splitlines() or [''])[-1][:200])))
    return res
