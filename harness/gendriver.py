"""Random driver over the whole public editing / query API of rockit for the generic cache protocol
(spec/Cache.tla, validated by spec/TraceCache.tla through harness/gentrace.py).  Unlike harness/record.py it
does not project the live NLP: it exercises *every* operation class on single- and two-stage OCPs, DAE and
discrete-time models, and leaves the judgement to the protocol (flags, transcription counts, declared lists)."""
import random, json
import casadi as ca
import build as _b      # puts the repository under test on sys.path
import gentrace
from observe import quiet

IPOPT = {"print_time": False, "ipopt": {"print_level": 0, "sb": "yes", "max_iter": 5}, "error_on_fail": False}


def base(rng):
    from rockit import Ocp, MultipleShooting, SingleShooting, DirectCollocation
    kind = rng.choice(['ode', 'dae', 'discrete', 'two-stage'])
    ocp = Ocp(t0=0, T=1)
    c = {'ocp': ocp, 'kind': kind, 'stages': [ocp], 'x': {}, 'u': {}, 'p': {}, 'v': {}, 'sol': None}
    if kind == 'two-stage':
        c['stages'] = [ocp.stage(t0=0, T=1), ocp.stage(t0=1, T=1)]
    for st in c['stages']:
        x = st.state(); u = st.control(); p = st.parameter()
        c['x'][st] = [x]; c['u'][st] = [u]; c['p'][st] = [p]; c['v'][st] = []
        if kind == 'discrete': st.set_next(x, x + 0.1 * u * p)
        else: st.set_der(x, -x + u * p)
        if kind == 'dae':
            z = st.algebraic(); st.add_alg(z - x - 1); c.setdefault('z', {})[st] = z
        st.set_value(p, 1.5)
        st.add_objective(st.at_tf(x) ** 2 + (st.sum(u ** 2) if kind == 'discrete' else st.integral(u ** 2)))
        st.subject_to(st.at_t0(x) == 1)
        m = rng.choice(['MS', 'SS', 'DC'] if kind in ('ode', 'two-stage') else ['MS', 'SS'] if kind == 'discrete' else ['DC'])
        st.method({'MS': lambda: MultipleShooting(N=2, intg='rk'), 'SS': lambda: SingleShooting(N=2, intg='rk'), 'DC': lambda: DirectCollocation(N=2, degree=2)}[m]())
    if kind == 'two-stage':
        a, b = c['stages']
        ocp.subject_to(b.at_t0(c['x'][b][0]) == a.at_tf(c['x'][a][0]))
    ocp.solver('ipopt', IPOPT)
    # a stand-alone template from which further stages can be cloned later on
    from rockit import Stage
    t = Stage(T=1)
    tx = t.state(); tu = t.control()
    t.set_der(tx, -tx + tu); t.add_objective(t.integral(tu ** 2)); t.subject_to(t.at_t0(tx) == 0)
    t.method(MultipleShooting(N=2, intg='rk'))
    c['template'] = t
    return c


def step(c, rng):
    """One public operation (or a short compound of them) chosen at random."""
    from rockit import MultipleShooting, SingleShooting, DirectCollocation
    ocp = c['ocp']; st = rng.choice(c['stages'])
    x = c['x'][st][0]; u = c['u'][st][0]; p = c['p'][st][0]
    disc = c['kind'] == 'discrete'
    ops = ['state', 'control', 'variable', 'parameter', 'reg_state', 'reg_param', 'subject_to', 'subject_to_int', 'add_objective', 'clear', 'method', 'set_T', 'set_t0',
           'solver', 'callback', 'set_value', 'set_initial', 'set_initial_u', 'sample', 'sample_int', 'value', 'sampler', 'to_function', 'discrete_system',
           'jacobian', 'initial_value', 'solve', 'solve', 'save', 'transcribe', 'bad_query', 'bad_edit', 'alg', 'new_stage', 'clone_stage']
    op = rng.choice(ops)
    if op == 'state':
        y = st.state(); c['x'][st].append(y)
        (st.set_next(y, y + u) if disc else st.set_der(y, u - y))
    elif op == 'control':
        w = st.control(); c['u'][st].append(w); st.add_objective(st.sum(w ** 2))
    elif op == 'variable':
        v = st.variable(grid=rng.choice(['', 'control'])); c['v'][st].append(v); st.add_objective(st.sum(v ** 2) if st.is_signal(v) else v ** 2)
    elif op == 'parameter':
        q = st.parameter(); c['p'][st].append(q); st.set_value(q, 2); st.subject_to(u <= 10 + q)
    elif op == 'reg_state':
        y = ca.MX.sym('y'); st.register_state(y); c['x'][st].append(y)
        (st.set_next(y, y + u) if disc else st.set_der(y, u))
    elif op == 'reg_param':
        q = ca.MX.sym('q'); st.register_parameter(q); c['p'][st].append(q); st.set_value(q, 3)
    elif op == 'subject_to': st.subject_to(u <= rng.choice([3, 4, 5]))
    elif op == 'subject_to_int': st.subject_to(x >= -rng.choice([3, 4]), grid='control' if disc else 'integrator')
    elif op == 'add_objective': st.add_objective(st.at_tf(x * rng.choice([1, 2])))
    elif op == 'clear':
        st.clear_constraints(); st.subject_to(st.at_t0(x) == 1)
        for y in c['x'][st][1:]: st.subject_to(st.at_t0(y) == 0)
    elif op == 'method':
        N = rng.choice([2, 3])
        if disc or c['kind'] == 'dae': st.method((MultipleShooting(N=N, intg='rk') if disc else DirectCollocation(N=N, degree=2)))
        else: st.method(rng.choice([MultipleShooting(N=N, intg='rk'), SingleShooting(N=N, intg='rk'), DirectCollocation(N=N, degree=2)]))
    elif op == 'set_T': st.set_T(rng.choice([1, 2]))
    elif op == 'set_t0':
        if c['kind'] != 'two-stage': st.set_t0(rng.choice([0, 1]))
    elif op == 'solver': ocp.solver(rng.choice(['ipopt', 'sqpmethod']), IPOPT if rng.random() < 0.8 else {})
    elif op == 'callback': ocp.callback(lambda i, sol: None)
    elif op == 'set_value': st.set_value(rng.choice(c['p'][st]), rng.choice([1, 2, 3]))
    elif op == 'set_initial': st.set_initial(x, rng.choice([1, 2]))
    elif op == 'set_initial_u': st.set_initial(u, rng.choice([0.5, 1]))
    elif op == 'sample': st.sample(x, grid='control')
    elif op == 'sample_int': st.sample(x * u, grid='integrator')
    elif op == 'value': st.value(st.at_tf(x))
    elif op == 'sampler':
        if c['kind'] != 'two-stage' and not disc: ocp.sampler([x])
    elif op == 'to_function': ocp.to_function('f', [st.value(p)], [st.sample(x, grid='control')[1]])
    elif op == 'discrete_system':
        if c['kind'] in ('ode',): ocp.discrete_system()
    elif op == 'jacobian': ocp.jacobian()
    elif op == 'initial_value': ocp.initial_value(st.at_tf(x))
    elif op == 'solve':
        try: c['sol'] = ocp.solve()
        except Exception: c['sol'] = None
    elif op == 'save':
        import tempfile, os
        d = tempfile.mkdtemp(prefix='gd_')
        try: ocp.save(os.path.join(d, 'o.rockit'))
        finally:
            import shutil; shutil.rmtree(d, ignore_errors=True)
    elif op == 'transcribe': ocp.transcribe()
    elif op == 'bad_query': st.sample(x, grid='nonsense')
    elif op == 'bad_edit': st.set_value(x, 1)
    elif op == 'new_stage':
        if c['kind'] == 'two-stage' and len(c['stages']) < 4:
            s2 = ocp.stage(t0=len(c['stages']), T=1)
            y = s2.state(); w = s2.control(); q = s2.parameter()
            s2.set_der(y, -y + w * q); s2.set_value(q, 2); s2.add_objective(s2.integral(w ** 2)); s2.subject_to(s2.at_t0(y) == 1)
            s2.method(MultipleShooting(N=2, intg='rk'))
            c['stages'].append(s2); c['x'][s2] = [y]; c['u'][s2] = [w]; c['p'][s2] = [q]; c['v'][s2] = []
    elif op == 'clone_stage':
        if c['kind'] == 'two-stage' and len(c['stages']) < 4:
            ocp.stage(c['template'], t0=len(c['stages']) + 5)
    elif op == 'alg':
        if c['kind'] == 'dae':
            z2 = st.algebraic(); st.add_alg(z2 - 2 * x)
    return op


def record(seed, length=16):
    gentrace.install(); gentrace.reset()
    rng = random.Random(seed)
    c = quiet(base, rng)
    for i in range(length):
        try:
            quiet(step, c, rng)
        except Exception:
            pass
    out = []
    for rid in gentrace.ORDER:
        t = gentrace.TRACES[rid]
        out.append({'id': 'd%d' % seed, 'test': 'driver:%s' % c['kind'], 'events': t['events']})
    gentrace.reset()
    return out[0] if out else {'id': 'd%d' % seed, 'test': 'driver', 'events': []}


def record_one(seed):
    try:
        return record(seed)
    except Exception as e:
        import traceback
        return {'id': 'd%d' % seed, 'events': [], 'error': traceback.format_exc()}
