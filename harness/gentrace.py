"""Direction B on arbitrary workloads: a recorder for the transcription-cache protocol of rockit.

No source hook is used: the public methods of rockit.Stage / rockit.Ocp are wrapped from outside (this
module doubles as a pytest plugin: `-p gentrace`).  For every *outermost* public call on a user's own
(original) OCP one event is logged after the call returned or raised:

    op     method name             cls   inval | inplace | query | solve | untr | retr
    out    ok | raise              tflag root.is_transcribed after the call
    ntr    number of transcriptions of this OCP so far (counted at Ocp._transcribe, after the call)
    decl   sizes of the declared lists over all stages after the call

Calls made by the library on its own transcribed copy (placeholder filling declares states, constraints,
guesses ...) happen inside an outermost call and are not logged.  The traces are validated by TLC against
spec/TraceCache.tla (generic cache protocol of spec/Cache.tla)."""
import functools, json, os, threading

CLASSES = {
    'inval': ['set_t0', 'set_T', 'stage', 'state', 'register_state', 'algebraic', 'register_algebraic', 'variable', 'register_variable',
              'parameter', 'register_parameter', 'control', 'register_control', 'set_der', 'set_next', 'add_alg', 'clear_constraints',
              'subject_to', 'add_objective', 'method', 'callback', 'solver'],
    'inplace': ['set_value', 'set_initial'],
    'query': ['sample', 'value', 'sampler', 'discrete_system', 'to_function', 'initial_value', 'jacobian', 'hessian', 'spy_jacobian', 'spy_hessian',
              'spy'],
    'solve': ['solve', 'solve_limited'],
    'untr': ['save'],
    'retr': ['transcribe'],
}
_state = threading.local()
TRACES = {}          # id(root) -> trace dict
ORDER = []
NTR = {}
CURRENT_TEST = ['']
_installed = []


def _root(obj):
    try:
        m = obj.master
    except Exception:
        return None
    if m is None: return None
    try:
        if not m._is_original or not obj._is_original: return None
    except Exception:
        return None
    return m


def _decl(root):
    n = [0] * 13
    for s in root.iter_stages(include_self=True):
        n[0] += len(s.states); n[1] += len(s.controls); n[2] += len(s.algebraics)
        n[3] += sum(len(v) for v in s.parameters.values()); n[4] += sum(len(v) for v in s.variables.values())
        n[5] += sum(len(v) for v in s._constraints.values()); n[6] += len(s._initial); n[7] += len(s._param_vals); n[8] += 1
        n[9] += len(s.qstates); n[10] += len(s._alg); n[11] += len(s._state_der); n[12] += len(s._state_next)
    return n


def _wrap(cls, name, kind):
    orig = cls.__dict__.get(name)
    if orig is None or not callable(orig): return
    @functools.wraps(orig)
    def wrapper(self, *a, **k):
        depth = getattr(_state, 'depth', 0)
        root = _root(self) if depth == 0 else None
        if root is None:
            _state.depth = depth + 1
            try:
                return orig(self, *a, **k)
            finally:
                _state.depth = depth
        _state.depth = depth + 1
        out = 'ok'
        try:
            return orig(self, *a, **k)
        except BaseException:
            out = 'raise'
            raise
        finally:
            _state.depth = depth
            try:
                rid = id(root)
                if rid not in TRACES:
                    TRACES[rid] = {'id': 'g%d' % len(ORDER), 'test': CURRENT_TEST[0], 'events': [], '_keep': root}
                    ORDER.append(rid)
                tr = TRACES[rid]
                if len(tr['events']) < 400:
                    tr['events'].append({'op': name, 'cls': kind, 'out': out, 'tflag': bool(root.is_transcribed), 'ntr': NTR.get(rid, 0),
                                         'decl': _decl(root), 'sub': self is not root})
            except Exception as e:       # the recorder must never disturb the workload
                TRACES.setdefault('errors', []).append(repr(e))
    setattr(cls, name, wrapper)
    _installed.append((cls, name, orig))


def install():
    if _installed: return
    from rockit.stage import Stage
    from rockit.ocp import Ocp
    for kind, names in CLASSES.items():
        for n in names:
            for cls in (Ocp, Stage):
                _wrap(cls, n, kind)
    orig_tr = Ocp._transcribe
    @functools.wraps(orig_tr)
    def _transcribe(self, **kw):
        was = bool(self.is_transcribed)
        r = orig_tr(self, **kw)
        if not was and self.is_transcribed:
            rid = id(self._original)
            NTR[rid] = NTR.get(rid, 0) + 1
        return r
    Ocp._transcribe = _transcribe
    _installed.append((Ocp, '_transcribe', orig_tr))


def uninstall():
    while _installed:
        cls, name, orig = _installed.pop()
        setattr(cls, name, orig)


def dump(path):
    with open(path, 'w') as f:
        for rid in ORDER:
            t = TRACES[rid]
            if not t['events']: continue
            f.write(json.dumps({k: v for k, v in t.items() if not k.startswith('_')}) + '\n')
    return len(ORDER)


def reset():
    TRACES.clear(); ORDER.clear(); NTR.clear()


# ---- pytest plugin interface -------------------------------------------------------------------
def _more_workloads():
    # SplineMethod needs networkx, which /venv lacks: the wheel is importable as it stands
    try:
        import networkx  # noqa
    except Exception:
        import sys
        w = '/opt/veriftools/wheels/networkx-3.6.1-py3-none-any.whl'
        if os.path.exists(w): sys.path.append(w)


def pytest_configure(config):
    _more_workloads()
    install()


def pytest_runtest_setup(item):
    CURRENT_TEST[0] = item.nodeid


def pytest_sessionfinish(session, exitstatus):
    out = os.environ.get('GENTRACE_OUT')
    if out: dump(out)


# ---- validation (TLC, spec/TraceCache.tla) ---------------------------------------------------------
def validate(traces):
    """Run TLC on a list of recorded traces; returns dict id -> verdict string ('{}' = accepted) and TLC stats."""
    import tempfile, re, shutil, tlc
    tmp = tempfile.mkdtemp(prefix='gtr_')
    try:
        fn = os.path.join(tmp, 'traces.ndjson')
        with open(fn, 'w') as f:
            for t in traces: f.write(json.dumps(t) + '\n')
        os.makedirs(os.path.join(tmp, 'w'))
        out, st = tlc.run_tlc('TraceCache', 'TraceCache.cfg', env={'TRACE_FILE': fn}, workers=1, tmp=os.path.join(tmp, 'w'))
        verdicts = {}
        for m in re.finditer(r'<<\s*"VERDICT",\s*"([^"]+)",\s*(\{.*?\})\s*>>', re.sub(r'\s+', ' ', out)):
            verdicts[m.group(1)] = m.group(2)
        ok = re.search(r'<<"validated", (\d+), "of", (\d+)>>', out)
        st['validated'] = int(ok.group(1)) if ok else 0
        if st['violation'] or not ok or int(ok.group(1)) != len(traces):
            raise tlc.TlcError('trace validation did not consume every trace:\n' + out[-2000:])
        return verdicts, st
    finally:
        shutil.rmtree(tmp, ignore_errors=True)


def record_pytest(paths, extra=(), timeout=3000):
    """Run repository tests under the recorder (cwd: a scratch directory, the tests write files); returns the traces."""
    import tempfile, subprocess, shutil, sys
    repo = os.environ.get('ROCKIT_REPO', '/repo')
    tmp = tempfile.mkdtemp(prefix='gtw_')
    try:
        out = os.path.join(tmp, 'traces.ndjson')
        env = dict(os.environ, PYTHONPATH=os.path.dirname(os.path.abspath(__file__)) + ':' + repo, GENTRACE_OUT=out, MPLBACKEND='Agg')
        cmd = ['/venv/bin/python', '-m', 'pytest', '-q', '-p', 'gentrace', '-p', 'no:cacheprovider', '--timeout=900', '-x' if False else '-q'] + list(extra) + list(paths)
        r = subprocess.run(cmd, cwd=tmp, env=env, capture_output=True, text=True, timeout=timeout)
        traces = [json.loads(l) for l in open(out)] if os.path.exists(out) else []
        return traces, (r.stdout + r.stderr)[-1500:]
    finally:
        shutil.rmtree(tmp, ignore_errors=True)


def record_scripts(paths, timeout=300, procs=16):
    """Run stand-alone scripts (the repository's examples) under the recorder, one process each."""
    import tempfile, subprocess, shutil
    from concurrent.futures import ThreadPoolExecutor
    repo = os.environ.get('ROCKIT_REPO', '/repo')
    here = os.path.dirname(os.path.abspath(__file__))
    def one(path):
        tmp = tempfile.mkdtemp(prefix='gts_')
        try:
            out = os.path.join(tmp, 'traces.ndjson')
            env = dict(os.environ, PYTHONPATH=here + ':' + repo, GENTRACE_OUT=out, MPLBACKEND='Agg', OMP_NUM_THREADS='1')
            try:
                r = subprocess.run(['/venv/bin/python', os.path.join(here, 'gentrace.py'), 'run', path], cwd=tmp, env=env, capture_output=True, text=True, timeout=timeout)
                status = 'exit %d' % r.returncode
            except subprocess.TimeoutExpired:
                status = 'timeout'
            traces = []
            if os.path.exists(out):
                for l in open(out):
                    t = json.loads(l); t['test'] = os.path.basename(path); t['id'] = os.path.basename(path) + ':' + t['id']; traces.append(t)
            return path, status, traces
        finally:
            shutil.rmtree(tmp, ignore_errors=True)
    with ThreadPoolExecutor(procs) as ex:
        return list(ex.map(one, paths))


def revalidate(rec):
    """Replay entry point: record the workload again (driver seed, repository test or example script) and validate."""
    t0 = rec['trace']
    src = rec.get('source', 'driver')
    if src == 'driver':
        import gendriver
        traces = [gendriver.record_one(int(t0['id'][1:]))]
    elif src == 'tests':
        repo = os.environ.get('ROCKIT_REPO', '/repo')
        traces, _ = record_pytest([os.path.join(repo, t0['test'])])
        traces = [t for t in traces if t['test'] == t0['test']]
    else:
        repo = os.environ.get('ROCKIT_REPO', '/repo')
        traces = [t for _, _, ts in record_scripts([os.path.join(repo, 'examples', t0['test'])]) for t in ts]
    verdicts, st = validate(traces)
    res = []
    for t in traces:
        v = verdicts.get(t['id'], 'missing')
        res.append(('C13.g', 'ok' if v == '{}' else 'mismatch', '%s: %s' % (t['id'], v)))
    return {'results': res or [('C13.g', 'error', 'workload produced no trace')], 'error': None}


if __name__ == '__main__':
    import sys, runpy, atexit
    if sys.argv[1] == 'run':
        _more_workloads(); install()
        atexit.register(lambda: dump(os.environ['GENTRACE_OUT']))
        sys.argv = [sys.argv[2]]
        sys.path.insert(0, os.path.dirname(os.path.abspath(sys.argv[0])))
        runpy.run_path(sys.argv[0], run_name='__main__')
