#!/usr/bin/env python3
"""Regenerate /verif/MANIFEST.json from the table below (kept next to the check registry)."""
import json, os
ROOT = os.path.abspath(os.path.join(os.path.dirname(os.path.abspath(__file__)), '..'))
props = [json.loads(l)['id'] for l in open(os.path.join(ROOT, 'properties.jsonl'))]

TB = ("TLC and the TLA+ modules in /verif/spec as the oracle (exact rational arithmetic, guarded against 32-bit overflow: "
      "overflowing predictions are counted as inconclusive); CasADi's evaluation of the NLP functions; float-vs-rational tolerance 1e-9; "
      "bounded catalogues (N, M, catalogue of right-hand sides / constraints / objectives) and generic rational probes rather than all decision vectors")

CLAIMS = {
 'C01': dict(tech="TLA+ spec (Schemes/Nlp) evaluated by TLC in exact rationals; TLC-enumerated scenarios replayed into rockit (direction A)",
             text="TLC enumerates right-hand sides x {SS,MS} x {rk,expl_euler,set_next} x N x M x grid class x horizon kind x probes and predicts every gap-closing residual, SS node state and integrator-point state exactly; each scenario is replayed into the real transcription and compared row by row away from any optimum",
             ref="DESIGN.md section 4 C01"),
 'C02': dict(tech="TLA+ spec (RatPoly derives C, D, B from the node vector; Nlp!DCInterval) evaluated by TLC; scenarios replayed into rockit",
             text="for the schemes with rational nodes (radau d=1,2; legendre d=1) TLC predicts every collocation, algebraic and continuity residual, the samples on control / integrator / integrator_roots grids and the interpolated algebraic values exactly, for ODE and index-1 DAE right-hand sides x N x M x grids x horizon kinds; the coefficient matrices are derived in TLA+ from tau by Lagrange interpolation, independently of CasADi",
             ref="DESIGN.md section 4 C02"),
 'C06': dict(tech="TLC model checking of MC_Grids.tla (emitted rows <=> declared partition within bounds) + TLC-enumerated grid scenarios replayed into rockit",
             text="MC_Grids checks on the specification that the rows of every grid class/formulation hold exactly for the declared partition within min/max, for all N<=3/4 and a rational neighbourhood of grid-variable assignments (and that the old deviations break this); the scenario family replays grid class x localize_t0/localize_T/FreeGrid x bound x perturbed grid variable x horizon kind x method (MS, SS and a slice of DirectCollocation) and compares time vectors, t/DT/DT_control samples and the feasibility verdict of the NLP's grid rows with the declarative verdict; DensityGrid / DenseEdgesGrid node positions observed on real grid objects are validated by TLC (TraceDensity.tla) against the declarative equidistribution",
             ref="DESIGN.md section 4 C06"),
 'C03': dict(tech="TLC model checking of MC_Order.tla (orders of the specified schemes as exact algebra) + TLC-computed exact flows replayed against discrete_system / sys_simulator",
             text="PARTIAL. MC_Order checks on the specification that rk reproduces the degree-4 Taylor polynomial on x'=lambda x and has quadrature error ratio 16, expl_euler degree 1 / ratio 2, and that the collocation steps obtained by solving the specification's own collocation rows (radau d=1,2; legendre d=1) match exp(z) through order 2d-1 / 2d with weights exact to the matching degree; C01/C02 bind those schemes to the code. On exactly solvable families (polynomial in t, lower-triangular in the states) TLC computes the exact flow and integral; ocp.discrete_system must equal the scheme values exactly, approach the exact flow at rate 2^p on the finest M pair, the CasADi integrators (cvodes, collocation; idas on an exactly solvable index-1 DAE) and ocp.sys_simulator must be within 1e-4 of the exact flow; DirectCollocation (radau/legendre) must reproduce the polynomial flows exactly with 4 points on uniform and geometric grids, also after a horizon edit, and converge at order 3 / 4 with 2 points",
             ref="DESIGN.md section 4 C03 and section 5"),
 'C04': dict(tech="TLA+ spec (Nlp placement: DeclaredPoints vs EmittedPoints checked by TLC) + TLC-enumerated scenarios replayed into rockit",
             text="TLC checks that the loop-shaped placement equals the declared placement for every catalogue constraint and predicts the bag of slacks of every declared instance; the real NLP rows are grouped by declaring call (metadata carried through Opti) and compared as bags, and every untagged row must be a dynamics row or a pure horizon/grid row; multi-stage histories (constraints added to a sub-stage after a transcription), cross-stage point constraints declared on either stage, vector double inequalities with infinite entries, offsets of magnitude >= 2, and SplineMethod (include_first/include_last next to a next() constraint, boundary constraints) are part of the check",
             ref="DESIGN.md section 4 C04"),
 'C05': dict(tech="TLA+ spec (Nlp objective) evaluated by TLC; scenarios replayed into rockit",
             text="exact prediction of the NLP objective for every subset of the objective-term catalogue x methods x grids x M, compared with opti.f at generic probes; also: collocation quadrature (degrees 1..5), integral through the CasADi integrators on exactly solvable families, objective terms added to a sub-stage after a transcription, lifecycle histories, and SplineMethod (Mayer + node sum + integral(grid='control') + integral by its Milne rule)",
             ref="DESIGN.md section 4 C05"),
 'C07': dict(tech="TLA+ spec (Nlp!EvalW at every grid point; matrix-valued reads) evaluated by TLC; scenarios replayed into rockit, numeric read-back through OcpSolution on a stand-in solver result",
             text="for scalar, column, row and 2x2 matrix expressions over vector/matrix states and parameters, on grids control / control- / integrator / integrator_roots and value(), TLC predicts every entry [i,r,c]; the harness compares symbolic ocp.sample/ocp.value at generic probes and numeric sol.sample/sol.value (OcpSolution fed with an evaluator at an arbitrary decision vector, so read-back is exercised away from optima), including array shapes",
             ref="DESIGN.md section 4 C07"),
 'C11': dict(tech="TLC invariant FreeEqualsFixed on the spec + exact replay of free-horizon scenarios into rockit",
             text="TLC checks on every scenario that the free-horizon prediction restricted to T=c, t0=c0 equals the fixed-horizon prediction (rows, slacks, objective, grid); the real free-horizon NLP is then compared exactly with that prediction for {T, t0, both} free x methods x grids (incl. localized T and FreeGrid), plus the row T>=0, value(T|t0|tf) and the starting value of T/t0",
             ref="DESIGN.md section 4 C11"),
 'C14': dict(tech="TLA+ spec with scales (Nlp) evaluated by TLC; scenarios replayed into rockit",
             text="for scale assignments on states, controls, algebraics, variables, state derivatives and constraints: d(physical)/d(solver variable) equals the declared scale for every ingredient, user rows and dynamics rows equal the physical residual/slack divided by the scale, objective, physical starting point (with guesses) and read-backs are those of the unscaled problem",
             ref="DESIGN.md section 4 C14"),
 'C08': dict(tech="TLA+ spec (dense output of Schemes / Lagrange interpolant of collocation, Nlp!PredictRefine, PredictSampler) evaluated by TLC; scenarios replayed into rockit at dynamically feasible probes",
             text="at dynamically feasible probes built by the specification (node states = propagated states), refined samples (refine 1..4/7) of states, compound expressions and time, and sampler(gist, t) at interior times, step boundaries and the end point, are predicted exactly from the step polynomials (rk quartic, Euler line, collocation interpolant for radau 1,2 / legendre 1) on uniform and non-uniform grids; stride relations to the unrefined integrator and control grids are part of the same comparison",
             ref="DESIGN.md section 4 C08"),
 'C15': dict(tech="TLC model checking of the Bernstein convex-hull lemma (MC_Bernstein.tla) + exact prediction of the inf rows (Bernstein coefficients of the composed step polynomial) replayed into rockit",
             text="TLC predicts, per integrator step, the Bernstein coefficients of e(x(dt_k*tau)) for linear, quadratic, product and inf_der constraints with the step's own length on uniform, geometric, function and free grids, and the NLP rows must equal them; MC_Bernstein checks on 4056 polynomials up to degree 8 that min/max Bernstein coefficients enclose the polynomial on [0,1] and are stable under degree elevation, which makes the rows sufficient; a scheme without dense output must be rejected (fault inf_no_guarantee)",
             ref="DESIGN.md section 4 C15"),
 'C16': dict(tech="TLA+ symbolic differentiation of the AST (Expr!Der) evaluated by TLC + invariant DerIsChainRule; replayed against ocp.der",
             text="for right-hand sides R1..R5 x expressions (polynomial in states, parameters and explicit time) x rational points TLC computes de/dt + grad e . f symbolically and checks it against difference quotients along Euler steps (O(h) bound for two step sizes); ocp.der(e) is evaluated at the same points and compared; control chains of order 1..3 walk down to the piecewise-constant control and one more derivative raises",
             ref="DESIGN.md section 4 C16"),
 'C20': dict(tech="TLC model checking of Faults.tla (solver only sees well-posed declarations) + TLC-enumerated fault scenarios executed on rockit with a solver spy",
             text="Faults.tla enumerates 38 specification faults (omissions, wrong symbols, unknown grid names incl. near misses, foreign symbols, false constants before and after horizon substitution, DAE/scheme mismatches, grid='inf' on non-polynomial / time-dependent / algebraic expressions or without dense output, SplineMethod offsets / quadrature states / nonlinearity, clones without values, set_value on quadrature states and B-spline variables, ...) x applicable methods {MS, SS, DC, SplineMethod} x {OCP, sub-stage} x position {early, late, after a successful solve}; each scenario must raise before any NLP reaches Opti.solve (counted by a spy), and the fault-free control scripts must solve",
             ref="DESIGN.md section 4 C20", level='fault_enumeration'),
 'C09': dict(tech="TLC model checking of Lifecycle.tla + TLC-generated API histories replayed into rockit, live NLP compared with a freshly written OCP",
             text="(a) exact replay family over parameter kinds (global, per-interval, per-interval+final, 2x2 matrix-valued, horizon parameter): rows, parametric bounds, objective and sampled parameter values against the prediction computed with the values written in; (b) histories over 14 public operations (exhaustive to depth 3/4, random to depth 12/16) are generated by TLC; after every call the parameter vector of the live NLP must equal that of a fresh OCP with the specification's declaration (value set before or after transcription, last value wins, other data untouched)",
             ref="DESIGN.md section 4 C09"),
 'C10': dict(tech="TLC model checking of Lifecycle.tla + TLC-generated API histories replayed into rockit",
             text="(a) exact replay family: guess forms (constant, time expression, N / N+1 column arrays as DM and numpy, repeated calls, T/t0 guesses, algebraic guesses) x symbol kinds x {MS, SS, DC incl. helper states} x before/after transcription: physical start of every decision variable against StartOf(decl); (b) for every generated history the physical starting point of the live NLP equals that of a fresh OCP with the final guesses (guess before/after transcription, last call wins)",
             ref="DESIGN.md section 4 C10"),
 'C12': dict(tech="TLA+ spec Stages.tla (disjoint union + parent rows), invariant Compositional checked by TLC; multi-stage scenarios (direct and cloned stages) replayed into rockit",
             text="TLC checks on every scenario that each stage's prediction inside the multi-stage problem equals its stand-alone prediction and the objective is the sum; the real multi-stage NLP (1..3 stages of different models/methods/grids/N, free/fixed horizons, integrals with time, coupling patterns chain/time, stages declared directly or cloned from a template with overridden t0/T) is compared per stage (rows recognised by the ingredients they touch), parent rows, no row coupling stages except declared parent constraints, objective sum, T>=0 per stage, template and declared lists untouched by transcription, and a set_value/edit history on a stage-level parameter",
             ref="DESIGN.md section 4 C12"),
 'C13': dict(tech="TLC model checking of Lifecycle.tla (cache-protocol invariants and action properties) + TLC-generated histories replayed into rockit with per-step state comparison + traces recorded from the real object (random drivers, the repository's own tests and examples) validated by TLC against Lifecycle.tla / Cache.tla",
             text="Lifecycle.tla models decl/live/tflag over 14 operations; TLC checks CacheCurrent, NeverRaises, QueriesIdempotent, DeclUntouched, SetValueLocal on all reachable states; every generated history is executed on the real object: outcome, is_transcribed, declared lists after each call, and at every transcribing call the live NLP (rows by call site, objective, parameters, start, grid, solver in effect) against a freshly written OCP; direction B: 240/2000 recorded traces of an independent driver validated against Lifecycle.tla, and the generic cache protocol Cache.tla (operation classes, transcription counts, declared lists) validated on 160/1500 traces of a driver over the whole public API and, thorough tier, on the repository's test-suite and examples run under the recorder (DESIGN 10.7)",
             ref="DESIGN.md section 4 C13, 10.7"),
 'C17': dict(tech="TLA+ spec BSplines.tla (Cox-de Boor in exact rationals) with spline laws checked by TLC; predictions replayed against the helper functions and grid='bspline' signals",
             text="TLC checks partition of unity, non-negativity, linear precision at the Greville points and unit derivative coefficients of the identity spline for orders 0..4, N<=5/8, uniform/geometric/irregular breakpoints, 0..2/4 sub-samples; eval_on_knots (edges, sub-samples, sub-grid), spline values, bspline_derivative and get_greville_points are compared exactly; variable(grid='bspline') under MultipleShooting/DirectCollocation: samples on the control grid and at every refinement equal the Cox-de Boor evaluation of the coefficients, der() is the analytic derivative in physical time, and a grid='bspline' parameter in the ODE reaches the right interval (explicit-Euler gap rows); SplineMethod on integrator chains of length 2..4: every chain member's samples on the control and refined grids equal the derivative splines of the coefficient variables (chain dynamics hold identically), coefficients sit at the Greville times, the path constraint is imposed at every (refined) grid point and boundary constraints once; on three chain problems SplineMethod and MultipleShooting reach the same optimum (solver relation, 1e-5)",
             ref="DESIGN.md section 4 C17"),
 'C19': dict(tech="TLC model checking of ToFunction.tla (call data = imperative data, isolation from later updates, fresh snapshot for every function made) + scenarios replayed: ocp.to_function vs a freshly written OCP driven imperatively",
             text="TLC enumerates argument lists (parameters p, q; guesses of sampled states/controls), values current when the function is made, later imperative updates and call values, and supplies the data the call must work on; the real function's results are compared (1e-6) with set_value/set_initial/solve/sample on a fresh OCP with exactly that data, for MS/SS/DC and iteration limits 0 and 50 (with limit 0 the result is the starting point, i.e. depends on the guesses); functions made twice with the same name and expression objects around an imperative update, scaled states/controls, and per-clone parameter values of two stages cloned from one template are part of the family",
             ref="DESIGN.md section 4 C19"),
 'C18': dict(tech="Save/Load as Lifecycle actions; TLC-generated histories replayed into rockit",
             text="at every save point of every generated history the object is saved and loaded; the loaded OCP (symbols found through the public accessors) must transcribe to the NLP of a fresh OCP with the specification's declaration, and the original must continue along the history",
             ref="DESIGN.md section 4 C18"),
}
NOTES = {
 'C02': "degrees with irrational nodes (radau d>=3, legendre d>=2) are not predicted numerically yet",
 'C03': "DirectCollocation is judged on the polynomial families only (exact with 4 points, order 3/4 with 2 points); asymptotic rates for general smooth ODEs, schemes with irrational nodes and 'within the requested tolerance' as such are not decided; CVODES quadratures are only required to be within 5e-2 (no error control by default)",
 'C17': "SplineMethod: vector-valued chains and mixed chain lengths in one problem are not covered (grid='inf' rows are, for affine constraints on one chain member); equality of optima is a solver-level relation on three problems",
 'C19': "scaled states/controls and two cloned stages are exercised on thin slices (one model each); matrix-valued arguments are not",
 'C08': "collocation degrees with irrational nodes and the convergence clause are not covered; DC probes are generic (not feasible), so the final sample of the last step is excluded there",
 'C15': "DirectCollocation degree 4 (irrational nodes) is not predicted numerically; tightness as M grows is not decided",
 'C16': "second derivatives only of pure time expressions (der of an expression that mentions controls is documented to raise)",
 'C06': "DensityGrid/DenseEdgesGrid node positions are not predicted (no closed form in rationals)",
 'C10': "array guesses for DirectCollocation helper states are not predicted (conservative reading, DESIGN 9.2)",
}

checks = []
for p in props:
    if p in CLAIMS:
        c = CLAIMS[p]
        checks.append({"property_id": p, "quick_cmd": "./check %s --tier quick" % p, "thorough_cmd": "./check %s --tier thorough" % p,
                       "evidence_file": "/verif/evidence/%s.json" % p, "replay_cmd_template": "./check %s --replay {path}" % p,
                       "engine": "tlc+replay", "technique": c['tech'],
                       "level_claimed": {"category": c.get("level", "model_checking"), "text": c['text'] + ((' -- ' + NOTES[p]) if p in NOTES else ''), "design_ref": c['ref']},
                       "level_note": TB})
m = {"version": 1, "setup_cmd": "./setup.sh",
     "hooks": {"guard": "ROCKIT_VERIF", "enable": "no source hooks: checks import rockit from /repo's working tree (sys.path) and observe through the public API and ocp._method.opti",
               "baseline_off_cmd": "cd /repo && /venv/bin/python -m pytest -ra -q -p no:cacheprovider --timeout=900 --continue-on-collection-errors",
               "source_commits": [], "add_only": True},
     "engines": [{"name": "tlc+replay", "path": "/verif/check", "serves_properties": sorted(CLAIMS),
                  "kind_free_text": "TLA+ specification in /verif/spec checked and evaluated by TLC; TLC-generated scenarios and histories replayed into rockit by /verif/harness"}],
     "checks": checks,
     "notes": "See DESIGN.md. Fixed defects are listed in known_findings.json ('fixed:' lines) with their fix: commits in /repo.",
     "not_applicable": [{"property_id": p, "reason": "check not built yet (work in progress; see DESIGN.md section 4)"} for p in props if p not in CLAIMS]}
json.dump(m, open(os.path.join(ROOT, 'MANIFEST.json'), 'w'), indent=1)
print('claimed', sorted(CLAIMS))
