"""Projection of a live (transcribed) rockit OCP onto the abstract state of the specification.

observe(b) returns an Obs: the NLP functions (f, g, lbg, ubg as functions of x and p), the
variable map from ingredients (state i at node k, control i on interval k, ...) to entries of
opti.x with their scale, per-row metadata (declaring constraint id, relation kind, dependency
classes), the parameter vector and the starting point.
"""
import io, contextlib
import numpy as np
import casadi as ca


def quiet(fn, *a, **k):
    buf = io.StringIO()
    with contextlib.redirect_stdout(buf):
        return fn(*a, **k)


class Obs:
    pass


def _num_jac(expr, opti, pts):
    J = ca.Function('J', [opti._vx, opti._vp], [ca.jacobian(ca.vec(expr), opti._vx)])
    return [np.array(J(x, p).full()) for x, p in pts]


def locate(expr, opti, pts):
    """For each entry of expr: (index in opti.x, coefficient) if the entry is a single scaled
    decision variable (affine with one non-zero constant partial), else None."""
    Js = _num_jac(expr, opti, pts)
    n = Js[0].shape[0]
    out = []
    for r in range(n):
        rows = [J[r] for J in Js]
        if any(not np.all(np.isfinite(x)) for x in rows):
            out.append(None); continue
        if not all(np.allclose(rows[0], x, rtol=1e-12, atol=1e-12) for x in rows[1:]):
            out.append(None); continue
        nz = np.nonzero(np.abs(rows[0]) > 1e-12)[0]
        if len(nz) != 1:
            out.append(None); continue
        out.append((int(nz[0]), float(rows[0][nz[0]])))
    return out


def transcribe(b):
    quiet(lambda: b.ocp._transcribed)
    return b.ocp._method.opti


def observe(b, want_rows=True):
    ocp = b.ocp
    opti = transcribe(b)
    o = Obs()
    o.b = b; o.opti = opti
    # Opti.x only lists *active* symbols (those that occur in f or g); use every declared symbol
    adv = opti.advanced
    syms = adv.symvar()
    vs = [s for s in syms if adv.get_meta(s).type == ca.OPTI_VAR]
    ps = [s for s in syms if adv.get_meta(s).type == ca.OPTI_PAR]
    opti._vx = ca.veccat(*vs) if vs else ca.MX(0, 1)
    opti._vp = ca.veccat(*ps) if ps else ca.MX(0, 1)
    o.vx = opti._vx; o.vp = opti._vp
    o.nx = o.vx.numel(); o.ng = opti.ng; o.np = o.vp.numel()
    init = opti.initial()
    o.pvec = np.array(opti.debug.value(o.vp, init)).reshape(-1) if o.np > 0 else np.zeros(0)
    o.x0 = np.array(opti.debug.value(o.vx, init)).reshape(-1) if o.nx > 0 else np.zeros(0)
    o.nlp = ca.Function('nlp', [o.vx, o.vp], [opti.f, opti.g, opti.lbg, opti.ubg])
    rng = np.random.RandomState(12345)
    pts = [(rng.uniform(0.5, 1.5, o.nx), o.pvec), (rng.uniform(-1.5, -0.5, o.nx), o.pvec)]
    o.pts = pts
    ing = {}
    parts = getattr(b, 'parts', None)
    multi = parts is not None
    for si, part in enumerate(parts if multi else [b]):
        pre = ('%d:' % (si + 1)) if multi else ''
        st = part.stage if multi else ocp
        m = st._method
        N = m.N if hasattr(m, 'N') else 0

        def reg(kind, i, arr, cols):
            loc = locate(arr, opti, pts)
            for c in range(cols):
                ing[(pre + kind, i, c)] = loc[c]

        if not N: continue
        for i, s in enumerate(part.x):
            _, xs = quiet(st.sample, s, grid='control')
            reg('x', i, xs, N + 1)
        for i, s in enumerate(part.u):
            _, us = quiet(st.sample, s, grid='control')
            reg('u', i, us, N)
        for i, s in enumerate(part.v):
            kind = part.decl['vars'][i]['kind']
            if kind == 'g':
                reg('v', i, quiet(st.value, s), 1)
            else:
                _, vs = quiet(st.sample, s, grid='control')
                reg('v', i, vs, N if kind == 'c' else N + 1)
        deg = getattr(m, 'degree', 0) if type(m).__name__ == 'DirectCollocation' else 0
        if deg:
            M = m.M
            for i, s_ in enumerate(part.x):
                reg('xi', i, quiet(st.sample, s_, grid='integrator')[1], N * M + 1)
                reg('xr', i, quiet(st.sample, s_, grid='integrator_roots')[1], N * M * deg)
            for i, s_ in enumerate(part.z):
                reg('zr', i, quiet(st.sample, s_, grid='integrator_roots')[1], N * M * deg)
        reg('T', 0, quiet(st.value, st.T), 1)
        reg('t0', 0, quiet(st.value, st.t0), 1)
        ts, dtc = quiet(st.sample, st.DT_control, grid='control')
        reg('tn', 0, ts, N + 1)        # node times (decision variables when t0 is localized)
        Tl = getattr(m, 'T_local', None)
        if Tl is not None and all(isinstance(e, ca.MX) for e in Tl):
            reg('Tl', 0, ca.hcat(Tl), N)   # the grid's own interval-length variables (localize_T, FreeGrid)
        else:
            reg('Tl', 0, dtc, N)
    o.ing = ing
    o.owner = {}
    for key, loc in ing.items():
        if loc is not None:
            o.owner.setdefault(loc[0], key)
    if want_rows:
        o.rows = row_meta(o)
    return o


def row_meta(o):
    opti = o.opti
    adv = opti.advanced
    Jsp = ca.jacobian(opti.g, o.vx).sparsity()
    rows = []
    for i in range(o.ng):
        cid = None
        try:
            ud = opti.user_dict(adv.g_lookup(i))
            st = ud.get('stacktrace') if isinstance(ud, dict) else None
            if isinstance(st, dict): cid = st.get('cid')
            elif isinstance(st, list) and st and isinstance(st[0], dict): cid = st[0].get('cid')
        except Exception:
            cid = None
        rows.append({'cid': cid, 'cols': []})
    r_, c_ = Jsp.get_triplet()
    for r, c in zip(r_, c_):
        rows[r]['cols'].append(c)
    for r in rows:
        r['classes'] = sorted({o.owner[c][0] for c in r['cols'] if c in o.owner})
        r['kinds'] = sorted({k.split(':')[-1] for k in r['classes']})
        r['unowned'] = sum(1 for c in r['cols'] if c not in o.owner)
    return rows


def set_x(o, assign, base=None):
    """assign: dict ingredient key -> physical value.  Returns the solver vector."""
    xv = np.zeros(o.nx) if base is None else np.array(base, dtype=float)
    missing = []
    for key, val in assign.items():
        loc = o.ing.get(key)
        if loc is None:
            missing.append(key); continue
        xv[loc[0]] = val / loc[1]
    return xv, missing


def eval_nlp(o, xv, pv=None):
    pv = o.pvec if pv is None else pv
    f, g, lb, ub = o.nlp(xv, pv)
    return float(f), np.array(g).reshape(-1), np.array(lb).reshape(-1), np.array(ub).reshape(-1)


def slacks_by_cid(o, xv, pv=None):
    """Normalise rows: equalities -> |residual| ; inequalities -> list of finite slacks.
    Returns (dict cid -> {'eq': [...], 'ineq': [...]}, list of per-row records)."""
    f, g, lb, ub = eval_nlp(o, xv, pv)
    out = {}
    recs = []
    for i in range(o.ng):
        cid = o.rows[i]['cid']
        d = out.setdefault(cid, {'eq': [], 'ineq': []})
        if np.isfinite(lb[i]) and np.isfinite(ub[i]) and lb[i] == ub[i]:
            d['eq'].append(abs(g[i] - lb[i])); kind = 'eq'; vals = [g[i] - lb[i]]
        else:
            vals = []
            if np.isfinite(ub[i]): vals.append(ub[i] - g[i])
            if np.isfinite(lb[i]): vals.append(g[i] - lb[i])
            d['ineq'].extend(vals); kind = 'ineq'
        recs.append({'row': i, 'cid': cid, 'kind': kind, 'vals': vals, 'classes': o.rows[i]['classes'], 'kinds': o.rows[i]['kinds']})
    return f, out, recs


def sample_fn(o, e_mx, grid, **kw):
    t, r = quiet(o.b.ocp.sample, e_mx, grid=grid, **kw)
    return ca.Function('s', [o.vx, o.vp], [t, r])


def value_fn(o, e_mx):
    r = quiet(o.b.ocp.value, e_mx)
    return ca.Function('v', [o.vx, o.vp], [r])
