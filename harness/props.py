"""Registry: which scenario families / model-checking instances decide which property."""
import json, os
import engine, tlc
from multiprocessing import get_context


def scen_job(rep, module, family, own, known, parts=16, replay=('replay_nlp', 'replay'), cfg=None, extra_env=None):
    recs, st = tlc.generate(module, cfg or (module + '.cfg'), family, rep.tier, rep.seed, parts=parts, extra_env=extra_env)
    rep.add_tlc(st)
    outs = engine.pool_map(replay[0], replay[1], recs)
    engine.process_results(rep, recs, outs, own, known)
    return recs


def check_C01(rep, known):
    scen_job(rep, 'ScenShoot', 'C01', [r'C01\.', r'build', r'varmap'], known)


def check_C02(rep, known):
    scen_job(rep, 'ScenShoot', 'C02', [r'C02\.', r'build', r'varmap'], known)
    # degrees 1..5 of both schemes through node-independent special probes
    scen_job(rep, 'ScenDCs', 'C02s', [r'C02\.'], known, parts=4, replay=('dcs', 'replay'))
    # B-spline signals (a parameter and a variable) in the ODE, seen at every collocation time (M = 3): ScenSpline family
    recs, st = tlc.generate('ScenSpline', 'ScenSpline.cfg', 'C17', rep.tier, rep.seed, parts=1)
    rep.add_tlc(st)
    recs = [r for r in recs if r['sc']['sub'] == 0]
    outs = engine.pool_map('splines', 'replay', recs)
    engine.process_results(rep, recs, outs, [r'C17\.b:ode_param_dc'], known)
    # collocation rows of a sub-stage after an edit that follows a first transcription (multi-stage histories of the C12 family)
    recs, st = tlc.generate('ScenStages', 'ScenStages.cfg', 'C12', rep.tier, rep.seed, parts=16)
    recs = [r for r in recs if r['sc']['reset'] and r['sc']['kinds'][0] == 'D']
    outs = engine.pool_map('stages', 'replay', recs)
    engine.process_results(rep, recs, outs, [r'C12\.a:dyn'], known)


def check_C04(rep, known):
    scen_job(rep, 'ScenShoot', 'C04', [r'C04\.', r'build', r'varmap'], known)
    # declared constraints along API histories (subject_to / clear_constraints after transcriptions): Lifecycle family
    life_job(rep, [r'C04\.h'], known)
    # constraints declared on a sub-stage after a first transcription (multi-stage histories of the C12 family)
    recs, st = tlc.generate('ScenStages', 'ScenStages.cfg', 'C12', rep.tier, rep.seed, parts=16)
    # ... and point constraints that couple two stages, declared on either of them instead of on the parent
    recs = [r for r in recs if r['sc']['reset'] or r['sc']['pon'] != 'parent']
    outs = engine.pool_map('stages', 'replay', recs)
    engine.process_results(rep, recs, outs, [r'C12\.a:(rows|extra|parent|interference)'], known)
    # SplineMethod: path constraints with include_first / include_last next to a constraint with next(), boundary constraints
    recs, st = tlc.generate('ScenSplineM', 'ScenSplineM.cfg', 'C17c', rep.tier, rep.seed, parts=1)
    rep.add_tlc(st)
    recs = [r for r in recs if r['sc']['refine'] == 1 or not (r['sc']['incF'] and r['sc']['incL'])]
    outs = engine.pool_map('splinem', 'replay', recs)
    engine.process_results(rep, recs, outs, [r'C17\.c:rows:(path|bnd0|bndf|extra)'], known)


def mc_job(rep, module, cfg, expect_violation=None, workers=16, env=None):
    e = {'VERIF_TIER': rep.tier, 'VERIF_SEED': rep.seed}
    if env: e.update(env)
    out, st = tlc.run_tlc(module, cfg, workers=workers, env=e)
    st['module'] = '%s/%s' % (module, cfg)
    if expect_violation is None:
        if st['violation']:
            raise tlc.TlcError('%s/%s: specification-level invariant %s violated' % (module, cfg, st['violation']))
        rep.add_tlc(st)
    else:
        # sensitivity guard: with the named deviations enabled the invariant must be able to fail
        if st['violation'] != expect_violation:
            raise tlc.TlcError('%s/%s: expected a violation of %s with deviations enabled (vacuity guard), got %s' % (module, cfg, expect_violation, st['violation']))
        rep.notes.append('%s/%s violates %s as expected' % (module, cfg, expect_violation))


def check_C07(rep, known):
    scen_job(rep, 'ScenShoot', 'C07', [r'C07\.', r'build', r'varmap'], known)
    # multi-stage read-back: sol(stage).sample stage after stage on the same grids (C12 family)
    recs, st = tlc.generate('ScenStages', 'ScenStages.cfg', 'C12', rep.tier, rep.seed, parts=16)
    recs = [r for r in recs if len(r['sc']['kinds']) >= 2 and not r['sc']['reset'] and not r['sc']['late'] and r['sc']['pon'] == 'parent' and not r['sc']['pown']]
    outs = engine.pool_map('stages', 'replay', recs)
    engine.process_results(rep, recs, outs, [r'C07\.c:multi'], known)


def check_C15(rep, known):
    scen_job(rep, 'ScenShoot', 'C15', [r'C15\.', r'build', r'varmap'], known)
    mc_job(rep, 'MC_Bernstein', 'MC_Bernstein.cfg')
    # schemes without a polynomial guarantee must be rejected (fault catalogue entry inf_no_guarantee)
    recs, st = tlc.generate('ScenFault', 'ScenFault.cfg', 'C20', rep.tier, rep.seed, parts=1)
    recs = [r for r in recs if r['sc']['fault'].startswith('inf_')]
    outs = engine.pool_map('faults', 'replay', recs)
    engine.process_results(rep, recs, outs, [r'C20\.inf_'], known)


def check_C08(rep, known):
    scen_job(rep, 'ScenShoot', 'C08', [r'C08\.', r'build', r'varmap'], known)
    mc_job(rep, 'MC_Dense', 'MC_Dense.cfg', workers=8)


def check_C06(rep, known):
    # (the family's model has explicit time in the dynamics: the gap rows C01.a tell which time grid the *system* sees)
    scen_job(rep, 'ScenShoot', 'C06', [r'C06\.', r'C01\.a', r'build', r'varmap'], known)
    # DensityGrid: observed node positions validated by TLC against the declarative equidistribution
    import density
    # ('E<multiplier>-<edge_frac>': DenseEdgesGrid; two of them with the same N one after the other in one process)
    pairs = [('1+3t2', '1+t'), ('3-2t', '1+t'), ('1+4t3', '1+3t2'), ('E10-0.1', 'E3-0.2'), ('E2-0.25', 'E10-0.1')]
    obs, verdicts, st = density.run(pairs, [2, 3, 5] if rep.tier == 'quick' else [1, 2, 3, 4, 5, 6, 8])
    st['module'] = 'TraceDensity'; rep.add_tlc(st)
    for o in obs:
        rep.evaluations += 1; rep.sigs.add(o['id'])
        if verdicts[o['id']]: rep.count('C06.d:density', 'ok')
        else:
            rep.count('C06.d:density', 'mismatch')
            rep.violations.append(('C06.d:density', 'observed nodes %s are not the equidistribution of density %s' % ([round(v, 4) for v in o['raw']], o['density']), {'id': o['id'], 'sc': o['id']}, None))
    mc_job(rep, 'MC_Grids', 'MC_Grids_ideal.cfg')
    mc_job(rep, 'MC_Grids', 'MC_Grids_old.cfg', expect_violation='RowsCharacterise')
    mc_job(rep, 'MC_Grids', 'MC_Grids_nocoupling.cfg', expect_violation='RowsCharacterise')


def check_C05(rep, known):
    scen_job(rep, 'ScenShoot', 'C05', [r'C05\.', r'build', r'varmap'], known)
    # the direct-collocation scenarios (C02 family) carry integral objectives: collocation quadrature
    scen_job(rep, 'ScenShoot', 'C02', [r'C05\.', r'build', r'varmap'], known)
    life_job(rep, [r'C05\.'], known)      # (C05.h: value read back; C05.g: objective along histories)
    # ocp.integral through the CasADi integrators and the explicit schemes on exactly solvable families (C03 family)
    recs, st = tlc.generate('ScenFlow', 'ScenFlow.cfg', 'C03', rep.tier, rep.seed, parts=1)
    rep.add_tlc(st)
    outs = engine.pool_map('flow', 'replay', recs)
    engine.process_results(rep, recs, outs, [r'C03\.b'], known)
    scen_job(rep, 'ScenDCs', 'C02s', [r'C05\.'], known, parts=4, replay=('dcs', 'replay'))
    # objective terms added to a sub-stage after a first transcription (multi-stage histories of the C12 family)
    recs, st = tlc.generate('ScenStages', 'ScenStages.cfg', 'C12', rep.tier, rep.seed, parts=16)
    recs = [r for r in recs if r['sc']['reset']]
    outs = engine.pool_map('stages', 'replay', recs)
    engine.process_results(rep, recs, outs, [r'C12\.c:f'], known)
    # integrands that mention a B-spline signal only, under DirectCollocation (ScenSpline family)
    recs, st = tlc.generate('ScenSpline', 'ScenSpline.cfg', 'C17', rep.tier, rep.seed, parts=1)
    rep.add_tlc(st)
    recs = [r for r in recs if r['sc']['sub'] == 0]
    outs = engine.pool_map('splines', 'replay', recs)
    engine.process_results(rep, recs, outs, [r'C05\.s'], known)
    # SplineMethod: Mayer term + node sum + integral(grid='control') + integral (Milne rule on the refined grid)
    recs, st = tlc.generate('ScenSplineM', 'ScenSplineM.cfg', 'C17c', rep.tier, rep.seed, parts=1)
    rep.add_tlc(st)
    recs = [r for r in recs if r['sc']['refine'] == 1 and r['sc']['incF'] and r['sc']['incL']]
    outs = engine.pool_map('splinem', 'replay', recs)
    engine.process_results(rep, recs, outs, [r'C17\.c:f'], known)



def life_job(rep, own, known):
    # exhaustive histories of depth 3 (quick) / 4 (thorough) + random histories of depth 12 / 16
    thorough = rep.tier == 'thorough'
    d = 3        # all histories of depth 3 (about 20k): quick replays a seed-dependent eighth, thorough all of them
    recs, st = tlc.generate('ScenLife', 'ScenLife.cfg', 'life-bfs', rep.tier, rep.seed, parts=14, extra_env={'DEPTH': d})
    rep.add_tlc(st)
    sims = []
    nsim, dsim = (3000, 16) if thorough else (400, 12)
    for j in range(4):
        r2, st2 = tlc.generate('ScenLife', 'ScenLife.cfg', 'life-sim%d' % j, rep.tier, rep.seed, parts=1,
                               extra_env={'DEPTH': dsim}, extra=['-simulate', 'num=%d' % (nsim // 4), '-depth', str(dsim), '-seed', str(rep.seed * 10 + j)])
        rep.add_tlc(st2); sims += r2
    if not thorough:
        recs = [r for i, r in enumerate(recs) if i % 8 == rep.seed % 8]   # quick: a seed-dependent eighth of the exhaustive set
    recs = recs + sims
    outs = engine.pool_map('life', 'replay', recs)
    engine.process_results(rep, recs, outs, own, known, clause_base=lambda c: c.split('@')[0],
                           sig_fn=lambda r: ';'.join('%s(%s)' % (h['op'], h['arg']) for h in r['hist']))
    if rep.pid == 'C13': mc_lifecycle(rep)     # the exhaustive model check belongs to C13; the other properties reuse the histories


def mc_lifecycle(rep):
    mc_job(rep, 'MC_Lifecycle', 'MC_Lifecycle_ideal.cfg', workers=8)
    mc_job(rep, 'MC_Lifecycle', 'MC_Lifecycle_asis.cfg', expect_violation='CacheCurrent', workers=8)


def check_C20(rep, known):
    recs, st = tlc.generate('ScenFault', 'ScenFault.cfg', 'C20', rep.tier, rep.seed, parts=1)
    rep.add_tlc(st)
    outs = engine.pool_map('faults', 'replay', recs)
    engine.process_results(rep, recs, outs, [r'C20\.'], known)


def check_C16(rep, known):
    recs, st = tlc.generate('ScenDer', 'ScenDer.cfg', 'C16', rep.tier, rep.seed, parts=1)
    rep.add_tlc(st)
    outs = engine.pool_map('der', 'replay', recs)
    engine.process_results(rep, recs, outs, [r'C16\.'], known)
    # der() of expressions that involve B-spline signals (and explicit time): the spline family carries these clauses
    recs, st = tlc.generate('ScenSpline', 'ScenSpline.cfg', 'C17', rep.tier, rep.seed, parts=1)
    rep.add_tlc(st)
    recs = [r for r in recs if r['sc']['d'] >= 1]
    outs = engine.pool_map('splines', 'replay', recs)
    engine.process_results(rep, recs, outs, [r'C16\.', r'C17\.b:der'], known)


def check_C12(rep, known):
    recs, st = tlc.generate('ScenStages', 'ScenStages.cfg', 'C12', rep.tier, rep.seed, parts=16)
    rep.add_tlc(st)
    outs = engine.pool_map('stages', 'replay', recs)
    engine.process_results(rep, recs, outs, [r'C12\.'], known)
    import stages as _st
    engine.process_results(rep, [{'sc': {'kind': 'clone-guess'}}], [{'results': _st.clone_guess(), 'error': None}], [r'C12\.'], known)
    engine.process_results(rep, [{'sc': {'kind': 'parent-guess-chain'}}], [{'results': _st.parent_guess_chain(), 'error': None}], [r'C12\.'], known)
    engine.process_results(rep, [{'sc': {'kind': 'clone-contents'}}], [{'results': _st.clone_contents(), 'error': None}], [r'C12\.'], known)
    engine.process_results(rep, [{'sc': {'kind': 'substage-late-placeholder'}}], [{'results': _st.substage_late_placeholder(), 'error': None}], [r'C12\.'], known)


def check_C17(rep, known):
    recs, st = tlc.generate('ScenSpline', 'ScenSpline.cfg', 'C17', rep.tier, rep.seed, parts=1)
    rep.add_tlc(st)
    outs = engine.pool_map('splines', 'replay', recs)
    engine.process_results(rep, recs, outs, [r'C17\.'], known)
    recs, st = tlc.generate('ScenSplineM', 'ScenSplineM.cfg', 'C17c', rep.tier, rep.seed, parts=1)
    rep.add_tlc(st)
    outs = engine.pool_map('splinem', 'replay', recs)
    engine.process_results(rep, recs, outs, [r'C17\.'], known)
    import splinem
    rec = {'sc': {'kind': 'optima'}}
    engine.process_results(rep, [rec], [{'results': splinem.optima(), 'error': None}], [r'C17\.'], known)
    engine.process_results(rep, [{'sc': {'kind': 'signal-order'}}], [{'results': splinem.signals_order(), 'error': None}], [r'C17\.'], known)
    engine.process_results(rep, [{'sc': {'kind': 'spline-component-constraint'}}], [{'results': splinem.component_constraint(), 'error': None}], [r'C17\.'], known)
    engine.process_results(rep, [{'sc': {'kind': 'spline-signal-bounds'}}], [{'results': splinem.signal_bounds(), 'error': None}], [r'C17\.'], known)


def trace_job(rep, known):
    """Direction B: traces recorded by an independent random driver, validated by TLC against Lifecycle.tla."""
    import record, re
    n = 2000 if rep.tier == 'thorough' else 240
    seeds = [rep.seed * 100000 + i for i in range(n)]
    ctx = get_context("fork")
    with ctx.Pool(16) as pool:
        traces = pool.map(record.record_one, seeds, chunksize=4)
    bad = [t for t in traces if t.get('error')]
    if bad: raise RuntimeError('recorder failed: %s' % bad[0]['error'])
    chunks = [traces[i:i + 120] for i in range(0, len(traces), 120)]
    from concurrent.futures import ThreadPoolExecutor
    with ThreadPoolExecutor(8) as ex:
        results = list(ex.map(record.validate, chunks))
    for (verdicts, st), chunk in zip(results, chunks):
        st['module'] = 'TraceLifecycle'; rep.add_tlc(st)
        for t in chunk:
            v = verdicts.get(t['id'], 'missing')
            rep.evaluations += 1
            rep.sigs.add(t['id'] + ':' + ';'.join(e['op'] for e in t['events']))
            if len(rep.samples) < 5: rep.samples.append({'trace': [[e['op'], e['arg']] for e in t['events']]})
            if v == '{}':
                rep.count('C13.trace', 'ok')
            else:
                rep.count('C13.trace', 'mismatch')
                rec = {'trace': t}
                k = engine.match_known(rep.pid, 'C13.trace', v, rec, known)
                if k: rep.known_hits[k['key']] = rep.known_hits.get(k['key'], 0) + 1
                else: rep.violations.append(('C13.trace', 'TLC rejects the recorded trace: ' + v[:300], rec, None))


def gen_job(rep, known):
    """Direction B on arbitrary workloads: traces of the generic cache protocol (spec/Cache.tla) recorded from a random driver
    over the whole public API and -- thorough tier -- from the repository's own tests and examples, validated by TLC
    (spec/TraceCache.tla)."""
    import gentrace, gendriver, glob
    mc_job(rep, 'MC_Cache', 'MC_Cache_ideal.cfg', workers=2)
    mc_job(rep, 'MC_Cache', 'MC_Cache_keep.cfg', workers=2, expect_violation='CacheCurrent')
    if rep.tier == 'thorough':
        # unbounded: CacheCurrent as an inductive invariant (Apalache); the deviation must break the induction step.
        # An unavailable tool is a note, never a verdict; a counterexample on the faithful protocol is a specification error.
        import apalache
        a = apalache.run(); b = apalache.run('{"InvalKeepsLive"}')
        if 'counterexample' in (a['base'], a['step']): raise tlc.TlcError('Apalache: CacheCurrent is not inductive for Cache.tla: %s' % a)
        rep.notes.append('Apalache inductive check of CacheCurrent: %s; with InvalKeepsLive: %s' % (a, b))
        rep.mc_runs.append({'module': 'Cache.tla (Apalache, inductive invariant)', 'result': a, 'with_deviation': b})
    n = 1500 if rep.tier == 'thorough' else 160
    seeds = [rep.seed * 100000 + i for i in range(n)]
    with get_context("fork").Pool(16) as pool:
        traces = pool.map(gendriver.record_one, seeds, chunksize=4)
    bad = [t for t in traces if t.get('error')]
    if bad: raise RuntimeError('generic driver failed: %s' % bad[0]['error'])
    work = [('driver', t) for t in traces]
    if rep.tier == 'thorough':
        tr, tail = gentrace.record_pytest([os.path.join(os.environ.get('ROCKIT_REPO', '/repo'), 'tests')])
        if len(tr) < 50: raise RuntimeError('recording the repository tests produced %d traces: %s' % (len(tr), tail))
        work += [('tests', t) for t in tr]
        for path, status, ts in gentrace.record_scripts(sorted(glob.glob(os.path.join(os.environ.get('ROCKIT_REPO', '/repo'), 'examples', '*.py')))):
            work += [('examples', t) for t in ts]
        rep.notes.append('workloads: %d driver, %d repository-test and %d example traces' % (n, len(tr), len(work) - n - len(tr)))
    for i, (src, t) in enumerate(work): t['id'] = t['id'] if src == 'driver' else '%s#%d' % (t['id'], i)
    chunks = [work[i:i + 200] for i in range(0, len(work), 200)]
    from concurrent.futures import ThreadPoolExecutor
    with ThreadPoolExecutor(8) as ex:
        results = list(ex.map(lambda ch: gentrace.validate([t for _, t in ch]), chunks))
    import re
    for (verdicts, st), chunk in zip(results, chunks):
        st['module'] = 'TraceCache'; rep.add_tlc(st)
        for src, t in chunk:
            v = verdicts.get(t['id'], 'missing')
            rep.evaluations += 1
            rep.sigs.add(src + ':' + ';'.join(e['op'] + e['out'][0] for e in t['events']))
            if len(rep.samples) < 6 and src != 'driver': rep.samples.append({'workload': t.get('test'), 'ops': [e['op'] for e in t['events']][:12]})
            if v == '{}':
                rep.count('C13.g:' + src, 'ok'); continue
            rep.count('C13.g:' + src, 'mismatch')
            clauses = sorted(set(re.findall(r'"(C13\.[a-z]:[^"]+)"', v))) or ['C13.g']
            rec = {'trace': t, 'source': src, 'sc': {'source': src, 'id': t['id'], 'test': t.get('test')}}
            for cl in clauses[:2]:
                k = engine.match_known(rep.pid, cl, v, rec, known)
                if k: rep.known_hits[k['key']] = rep.known_hits.get(k['key'], 0) + 1
                else: rep.violations.append((cl.replace('C13.c:', 'C13.g:c:'), 'TLC rejects the recorded trace (%s, %s): %s' % (src, t.get('test'), v[:300]), rec, None))


def check_C19(rep, known):
    mc_job(rep, 'ToFunction', 'MC_ToFunction.cfg', workers=8)
    recs, st = tlc.generate('ScenFun', 'ScenFun.cfg', 'C19', rep.tier, rep.seed, parts=1)
    rep.add_tlc(st)
    import random
    rng = random.Random(rep.seed)
    n = 3000 if rep.tier == 'thorough' else 320
    cat = [r for r in recs if r['sc']['cat']]
    recs = [r for r in recs if not r['sc']['cat']]
    plain = [r for r in recs if not r['sc']['scaled'] and not r['sc']['multi']]
    scaled = [r for r in recs if r['sc']['scaled']]
    multi = [r for r in recs if r['sc']['multi']]
    recs = rng.sample(plain, min(n, len(plain))) + rng.sample(scaled, min(n // 3, len(scaled))) + rng.sample(multi, min(n // 3, len(multi))) + rng.sample(cat, min(n // 4, len(cat)))
    outs = engine.pool_map('funs', 'replay', recs)
    engine.process_results(rep, recs, outs, [r'C19\.'], known)
    import funs
    engine.process_results(rep, [{'sc': {'kind': 'z-argument'}}], [{'results': funs.zarg(), 'error': None}], [r'C19\.'], known)


def check_C03(rep, known):
    mc_job(rep, 'MC_Order', 'MC_Order.cfg', workers=8)
    # several integral terms whose integrands print alike (two controls): one quadrature per term -- C05 family, model RF
    recs, st = tlc.generate('ScenShoot', 'ScenShoot.cfg', 'C05', rep.tier, rep.seed, parts=16)
    recs = [r for r in recs if r['sc']['rhs'] == 'RF']
    outs = engine.pool_map('replay_nlp', 'replay', recs)
    engine.process_results(rep, recs, outs, [r'C05\.f'], known)
    # SplineMethod's own quadrature (Milne rule per control interval) on uniform and geometric grids: ScenSplineM family
    recs, st = tlc.generate('ScenSplineM', 'ScenSplineM.cfg', 'C17c', rep.tier, rep.seed, parts=1)
    rep.add_tlc(st)
    recs = [r for r in recs if r['sc']['refine'] == 1 and r['sc']['incF'] and r['sc']['incL'] and r['sc']['hz'] == 'num']
    outs = engine.pool_map('splinem', 'replay', recs)
    engine.process_results(rep, recs, outs, [r'C17\.c:f'], known)
    recs, st = tlc.generate('ScenFlow', 'ScenFlow.cfg', 'C03', rep.tier, rep.seed, parts=1)
    rep.add_tlc(st)
    outs = engine.pool_map('flow', 'replay', recs)
    engine.process_results(rep, recs, outs, [r'C03\.'], known)
    # convergence of the real schemes on the family they do not integrate exactly: error(M) / error(2M) -> 2^p
    errs = {}
    for r, o in zip(recs, outs):
        for c, s, d in o['results']:
            if c.startswith('C03.info:err:'):
                _, _, intg, m = c.split(':')
                key = (r['sc']['fam'], intg, json.dumps([r['sc']['t0'], r['sc']['T'], r['sc']['seed']]))
                errs.setdefault(key, {})[int(m[1:])] = float(d)
    for (fam, intg, _), e in errs.items():
        p_ = {'rk': 4, 'dc-radau2': 3, 'dc-legendre2': 4}.get(intg, 1)
        for m in (1, 2, 4):
            if m in e and 2 * m in e and e[m] > 1e-9:
                ratio = e[m] / max(e[2 * m], 1e-300)
                # asymptotic rate on the finest pair, monotone decrease before
                if intg != 'expl_euler': ok = ratio >= 0.8 * 2 ** p_
                else: ok = (1.4 <= ratio <= 3.0) if m == 4 else True      # coarser pairs are pre-asymptotic
                rep.count('C03.a:rate:' + intg, 'ok' if ok else 'mismatch')
                if not ok:
                    rep.violations.append(('C03.a:rate:' + intg, 'error ratio %.3g between M=%d and M=%d on %s, expected about %d' % (ratio, m, 2 * m, fam, 2 ** p_),
                                           {'sc': {'fam': fam, 'intg': intg, 'M': m}}, None))


def check_C13(rep, known):
    # history independence of the whole NLP: every clause of the lifecycle comparison (rows, objective, parameters, start, grid)
    life_job(rep, [r'C13\.', r'C04\.h', r'C05\.g', r'C09\.b', r'C10\.f', r'C11\.h'], known)
    trace_job(rep, known)
    gen_job(rep, known)
    # guesses given partly before and partly after a transcription (C10 family, when = split): same start as a fresh OCP
    recs, st = tlc.generate('ScenShoot', 'ScenShoot.cfg', 'C10', rep.tier, rep.seed, parts=16)
    recs = [r for r in recs if r['sc'].get('when') == 'split']
    outs = engine.pool_map('replay_nlp', 'replay', recs)
    engine.process_results(rep, recs, outs, [r'C10\.start'], known)
    # histories on multi-stage OCPs (set_value of a stage-level parameter and an edit after a transcription)
    recs, st = tlc.generate('ScenStages', 'ScenStages.cfg', 'C12', rep.tier, rep.seed, parts=16)
    recs = [r for r in recs if r['sc']['reset']]
    outs = engine.pool_map('stages', 'replay', recs)
    engine.process_results(rep, recs, outs, [r'C12\.(h|a|c|build)'], known)


def check_C09(rep, known):
    import stages as _st
    engine.process_results(rep, [{'sc': {'kind': 'vector-interval-param'}}], [{'results': _st.vector_interval_param(), 'error': None}], [r'C09\.'], known)
    engine.process_results(rep, [{'sc': {'kind': 'matrix-interval-param'}}], [{'results': _st.matrix_interval_param(), 'error': None}], [r'C09\.'], known)
    life_job(rep, [r'C09\.'], known)
    scen_job(rep, 'ScenShoot', 'C09', [r'C09\.', r'build', r'varmap'], known)
    # stages cloned from one template, each with its own parameter values (C12 family): every clone is the OCP with *its* values written in
    recs, st = tlc.generate('ScenStages', 'ScenStages.cfg', 'C12', rep.tier, rep.seed, parts=16)
    recs = [r for r in recs if r['sc']['clone'] and len(r['sc']['kinds']) >= 2 and r['decl']['stages'][0]['params']]
    outs = engine.pool_map('stages', 'replay', recs)
    engine.process_results(rep, recs, outs, [r'C12\.a:(dyn|rows)', r'C12\.c:f'], known)


def check_C10(rep, known):
    life_job(rep, [r'C10\.'], known)
    scen_job(rep, 'ScenShoot', 'C10', [r'C10\.', r'build', r'varmap'], known)
    # SplineMethod: linear-in-time guesses for a vector state on chains of different length
    import splinem
    engine.process_results(rep, [{'sc': {'kind': 'spline-mixed-chain-guess'}}], [{'results': splinem.mixedchain(), 'error': None}], [r'C10\.'], known)


def check_C11(rep, known):
    scen_job(rep, 'ScenShoot', 'C11', [r'C11\.', r'build', r'varmap'], known)
    # the fixed-horizon side of the equivalence: grids with variables of their own (free / localized) keep their rows when T, t0 are numbers
    recs, st = tlc.generate('ScenShoot', 'ScenShoot.cfg', 'C06', rep.tier, rep.seed, parts=16)
    recs = [r for r in recs if r['sc']['hz'] == 'num' and (r['sc']['grid'] == 'free' or r['sc']['lt0'] or r['sc']['lT'])]
    outs = engine.pool_map('replay_nlp', 'replay', recs)
    engine.process_results(rep, recs, outs, [r'C06\.(e|f)', r'build', r'varmap'], known)
    life_job(rep, [r'C11\.'], known)      # set_T / set_t0 along histories: the live time grid is that of the declaration


def check_C14(rep, known):
    scen_job(rep, 'ScenShoot', 'C14', [r'C14\.', r'build', r'varmap'], known)
    import stages as _st
    engine.process_results(rep, [{'sc': {'kind': 'clone-scale-der'}}], [{'results': _st.clone_scale_der(), 'error': None}], [r'C14\.'], known)
    # scaled states / controls as to_function arguments (C19 family): the function works on the physical values
    recs, st = tlc.generate('ScenFun', 'ScenFun.cfg', 'C19', rep.tier, rep.seed, parts=1)
    import random
    recs = [r for r in recs if r['sc']['scaled']]
    recs = random.Random(rep.seed).sample(recs, min(len(recs), 2000 if rep.tier == 'thorough' else 160))
    outs = engine.pool_map('funs', 'replay', recs)
    engine.process_results(rep, recs, outs, [r'C19\.a'], known)


def check_C18(rep, known):
    life_job(rep, [r'C18\.', r'C13\.d:outcome@\d+:save'], known)
    import splinem
    engine.process_results(rep, [{'sc': {'kind': 'spline-saveload'}}], [{'results': splinem.saveload(), 'error': None}], [r'C18\.'], known)
    import stages as _st
    engine.process_results(rep, [{'sc': {'kind': 'nested-saveload'}}], [{'results': _st.nested_saveload(), 'error': None}], [r'C18\.'], known)
    engine.process_results(rep, [{'sc': {'kind': 'builtin-saveload'}}], [{'results': _st.builtin_saveload(), 'error': None}], [r'C18\.'], known)
    # the exact families replayed through save/load: the *loaded* object must conform to the same predictions
    # (all variable kinds, free time, DAE + collocation, scaling, guesses, parameter kinds)
    import random
    rng = random.Random(rep.seed)
    for fam, n in (('C02', 150), ('C11', 150), ('C14', 150), ('C09', 150), ('C10', 150)):
        recs, st = tlc.generate('ScenShoot', 'ScenShoot.cfg', fam, rep.tier, rep.seed, parts=16)
        rep.add_tlc(st)
        recs = [r for r in recs if not r['decl'].get('xblocks') and r['sc'].get('when', 'before') == 'before']
        recs = rng.sample(recs, min(len(recs), n * (8 if rep.tier == 'thorough' else 1)))
        recs = [dict(r, saveload=True) for r in recs]
        outs = engine.pool_map('replay_nlp', 'replay', recs)
        engine.process_results(rep, recs, outs, [r'C18\.', r'build', r'varmap'], known,
                               sig_fn=lambda r: 'saveload:' + json.dumps(r['sc'], sort_keys=True))


CHECKS = {'C15': check_C15, 'C08': check_C08, 'C07': check_C07, 'C02': check_C02, 'C06': check_C06, 'C01': check_C01, 'C04': check_C04, 'C05': check_C05, 'C13': check_C13, 'C03': check_C03, 'C19': check_C19, 'C17': check_C17, 'C12': check_C12, 'C16': check_C16, 'C20': check_C20, 'C18': check_C18, 'C09': check_C09, 'C10': check_C10, 'C11': check_C11, 'C14': check_C14}
ENGINE = {p: ['life', 'replay'] for p in ('C13', 'C18')}
ENGINE['C20'] = ['faults', 'replay']
ENGINE['C16'] = ['der', 'replay']
ENGINE['C12'] = ['stages', 'replay']
ENGINE['C17'] = ['splines', 'replay']
ENGINE['C19'] = ['funs', 'replay']
ENGINE['C03'] = ['flow', 'replay']
