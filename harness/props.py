"""Registry: which scenario families / model-checking instances decide which property."""
import engine, tlc


def scen_job(rep, module, family, own, known, parts=16, replay=('replay_nlp', 'replay'), cfg=None, extra_env=None):
    recs, st = tlc.generate(module, cfg or (module + '.cfg'), family, rep.tier, rep.seed, parts=parts, extra_env=extra_env)
    rep.add_tlc(st)
    outs = engine.pool_map(replay[0], replay[1], recs)
    engine.process_results(rep, recs, outs, own, known)
    return recs


def check_C01(rep, known):
    scen_job(rep, 'ScenShoot', 'C01', [r'C01\.', r'build', r'varmap'], known)


def check_C04(rep, known):
    scen_job(rep, 'ScenShoot', 'C04', [r'C04\.', r'build', r'varmap'], known)


def check_C05(rep, known):
    scen_job(rep, 'ScenShoot', 'C05', [r'C05\.', r'build', r'varmap'], known)


CHECKS = {'C01': check_C01, 'C04': check_C04, 'C05': check_C05}
