"""Direction B recorder: an independent random driver performs public operations on a real rockit Ocp and
logs, after every call, the outcome and the projection of the live NLP onto the abstract declaration of
spec/Lifecycle.tla.  The traces are validated by TLC (spec/TraceLifecycle.tla)."""
import json, random
import numpy as np
import casadi as ca
import life
from observe import observe, set_x, quiet

OPS = ['set_value_cat', 'add_state', 'subject_to', 'clear_constraints', 'add_objective', 'method', 'solver', 'set_T', 'set_t0', 'set_value',
       'set_initial', 'sample', 'value', 'jacobian', 'solve', 'sol_sample', 'save']
ARGS = {'subject_to': ['ka', 'kb'], 'method': ['MS2', 'MS3', 'SS2', 'DC2'], 'solver': ['ipopt', 'ipopt0', 'sqp'],
        'set_T': [1, 2], 'set_t0': [0, 1], 'set_value': [1, 2, 3], 'set_value_cat': [2, 3], 'set_initial': [1, 2]}


def project(l):
    """Projection of the live NLP (l.ocp must report is_transcribed)."""
    ocp = l.ocp
    o = observe(l)
    m = ocp._method
    N = m.N
    kind = type(m).__name__
    meth = {'MultipleShooting': 'MS', 'SingleShooting': 'SS', 'DirectCollocation': 'DC'}[kind] + str(N)
    rows = {}
    for r in o.rows:
        if r['cid'] is not None: rows[r['cid']] = rows.get(r['cid'], 0) + 1
    per = N + 1
    fn = ca.Function('f', [o.vx, o.vp], [o.opti.f])
    x0 = np.zeros(o.nx); x1 = np.zeros(o.nx)
    wl = o.ing.get(('v', 0, 0))
    nobj = 0
    if wl is not None:
        x1[wl[0]] = 1.0 / wl[1]
        nobj = int(round(float(fn(x0, o.pvec)) - float(fn(x1, o.pvec))))
    ts, xs = quiet(ocp.sample, l.xs, grid='control')
    t_, xs0 = ca.Function('s', [o.vx, o.vp], [ts, xs])(o.x0, o.pvec)
    t_ = np.array(t_).reshape(-1); xs0 = np.array(xs0).reshape(-1)
    pval = int(round(float(ca.Function('p', [o.vx, o.vp], [quiet(ocp.value, l.ps)])(o.x0, o.pvec))))
    qval = int(round(float(ca.Function('p', [o.vx, o.vp], [quiet(ocp.value, l.qs)])(o.x0, o.pvec))))
    return {'ext': len(l.x) - 1, 'k0': rows.get('k0', 0), 'ka': rows.get('ka', 0) // per, 'kb': rows.get('kb', 0) // per, 'nobj': nobj,
            'T': int(round(t_[-1] - t_[0])), 't0': int(round(t_[0])), 'pval': pval, 'qval': qval, 'guess': int(round(xs0[0])), 'meth': meth}


def record(seed, length=14):
    rng = random.Random(seed)
    l = life.base()
    ncons = 1; nobj = 0; has_sol = False; ext = 0
    events = []
    for step in range(length):
        while True:
            op = rng.choice(OPS)
            if op == 'subject_to' and ncons >= 3: continue
            if op == 'add_objective' and nobj >= 2: continue
            if op == 'add_state' and ext: continue
            if op == 'sol_sample' and not has_sol: continue
            break
        arg = rng.choice(ARGS[op]) if op in ARGS else ''
        outcome, info = life.apply(l, op, str(arg) if op in ('set_T', 'set_t0', 'set_value', 'set_value_cat', 'set_initial') else arg)
        if op == 'subject_to' and outcome == 'ok': ncons += 1
        if op == 'clear_constraints': ncons = 0
        if op == 'add_objective': nobj += 1
        if op == 'add_state': ext = 1
        if op == 'solve' and outcome == 'ok': has_sol = True
        ev = {'op': op, 'arg': arg, 'out': outcome, 'tflag': False, 'live': None, 'solver': 'unknown'}
        if outcome == 'ok':
            tf = bool(l.ocp.is_transcribed)
            ev['tflag'] = tf
            if tf:
                try:
                    ev['live'] = project(l)
                except Exception as e:
                    ev['out'] = 'raise'; ev['exc'] = 'projection: %s' % e
            if op == 'solve':
                ev['solver'] = life.solver_signature(info) or 'unknown'
        else:
            ev['exc'] = info.get('exc')
        if ev['live'] is None:
            ev['live'] = {'ext': 0, 'k0': 0, 'ka': 0, 'kb': 0, 'nobj': 0, 'T': 0, 't0': 0, 'pval': 0, 'qval': 0, 'guess': 0, 'meth': ''}
        events.append(ev)
        if outcome == 'raise' and op != 'sol_sample': break
    return {'id': 'r%d' % seed, 'events': events}


def record_one(seed):
    try:
        return record(seed)
    except Exception as e:
        return {'id': 'r%d' % seed, 'events': [], 'error': str(e)}


def validate(traces, tmpdir=None):
    """Run TLC on a list of recorded traces; returns dict id -> verdict string ('{}' = accepted) and TLC stats."""
    import tempfile, os, re, shutil, tlc
    tmp = tempfile.mkdtemp(prefix='vtr_')
    try:
        fn = os.path.join(tmp, 'traces.ndjson')
        with open(fn, 'w') as f:
            for t in traces: f.write(json.dumps(t) + '\n')
        os.makedirs(os.path.join(tmp, 'w'))
        out, st = tlc.run_tlc('TraceLifecycle', 'TraceLifecycle.cfg', env={'TRACE_FILE': fn}, workers=1, tmp=os.path.join(tmp, 'w'))
        verdicts = {}
        for m in re.finditer(r'<<\s*"VERDICT",\s*"([^"]+)",\s*(\{.*?\})\s*>>', re.sub(r'\s+', ' ', out)):
            verdicts[m.group(1)] = m.group(2)
        ok = re.search(r'<<"validated", (\d+), "of", (\d+)>>', out)
        st['validated'] = int(ok.group(1)) if ok else 0
        if st['violation'] or not ok or int(ok.group(1)) != len(traces):
            raise tlc.TlcError('trace validation did not consume every trace:\n' + out[-2000:])
        return verdicts, st
    finally:
        shutil.rmtree(tmp, ignore_errors=True)


def revalidate(rec):
    """Replay entry point: re-record the trace with the same seed and validate it."""
    t = record_one(int(rec['trace']['id'][1:]))
    verdicts, st = validate([t])
    v = verdicts.get(t['id'], 'missing')
    if v == '{}': return {'results': [('C13.trace', 'ok', '')], 'error': None}
    return {'results': [('C13.trace', 'mismatch', v)], 'error': None}
