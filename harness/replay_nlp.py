"""Direction A: replay one TLC-generated scenario [sc, decl, probe, pred] into rockit and compare
the observed NLP with the exact prediction.  Only the comparison is decided here; every expected
value comes from TLC."""
import traceback
from fractions import Fraction as Fr
import numpy as np

from build import build, mx, fr, fl
from observe import observe, set_x, slacks_by_cid, sample_fn, value_fn, quiet

RTOL = 1e-9


def isbad(a):
    return a[1] == 0


def close(obs, a, rtol=RTOL):
    q = float(Fr(a[0], a[1]))
    return abs(obs - q) <= rtol * max(1.0, abs(q))


def bag_compare(obs, pred, absval=False):
    """obs: list of floats, pred: list of [n,d].  Returns ('ok'|'inconclusive'|'mismatch', detail)."""
    if len(obs) != len(pred):
        return 'mismatch', 'count obs=%d pred=%d' % (len(obs), len(pred))
    if any(isbad(p) for p in pred):
        return 'inconclusive', 'BAD arithmetic'
    pv = sorted((abs(float(Fr(p[0], p[1]))) if absval else float(Fr(p[0], p[1]))) for p in pred)
    ov = sorted((abs(v) if absval else v) for v in obs)
    for a, b_ in zip(ov, pv):
        if abs(a - b_) > RTOL * max(1.0, abs(b_)):
            return 'mismatch', 'obs=%s pred=%s' % (ov, pv)
    return 'ok', ''


def bag_compare_optional(obs, req, opt, absval=False):
    """req: slacks that must be present; opt: list of slack groups of decision-independent instances,
    each of which may be absent provided it is satisfied."""
    if any(isbad(p) for p in req) or any(isbad(p) for g in opt for p in g):
        n_lo = len(req); n_hi = len(req) + sum(len(g) for g in opt)
        if not (n_lo <= len(obs) <= n_hi): return 'mismatch', 'count obs=%d pred in [%d,%d]' % (len(obs), n_lo, n_hi)
        return 'inconclusive', 'BAD arithmetic'
    conv = (lambda p: abs(float(Fr(p[0], p[1])))) if absval else (lambda p: float(Fr(p[0], p[1])))
    ov = sorted((abs(v) if absval else v) for v in obs)
    left = list(ov)
    for p in sorted(conv(p) for p in req):
        hit = [i for i, a in enumerate(left) if abs(a - p) <= RTOL * max(1.0, abs(p))]
        if not hit: return 'mismatch', 'missing required slack %r; obs=%s' % (p, ov)
        left.pop(hit[0])
    for g in opt:
        vals = [conv(p) for p in g]
        idx = []
        tmp = list(left)
        okg = True
        for p in vals:
            hit = [i for i, a in enumerate(tmp) if abs(a - p) <= RTOL * max(1.0, abs(p))]
            if not hit: okg = False; break
            tmp.pop(hit[0])
        if okg: left = tmp
        else:
            sat = all(abs(p) <= 1e-12 for p in vals) if absval else all(p >= 0 for p in vals)
            if not sat: return 'mismatch', 'violated constant instance %s absent' % vals
    if left: return 'mismatch', 'unexplained slacks %s (obs=%s)' % (left, ov)
    return 'ok', ''


def seq_compare(obs, pred):
    if len(obs) != len(pred):
        return 'mismatch', 'length obs=%d pred=%d' % (len(obs), len(pred))
    inc = False
    for i, (a, p) in enumerate(zip(obs, pred)):
        if isbad(p):
            inc = True; continue
        if not close(a, p):
            return 'mismatch', 'index %d obs=%r pred=%s' % (i, a, Fr(p[0], p[1]))
    return ('inconclusive', 'BAD arithmetic') if inc else ('ok', '')


class FakeSol:
    """Stands in for the solver result: evaluates any expression at a chosen decision vector."""
    def __init__(self, o, xv):
        self.o = o; self.xv = xv
    def value(self, e, *a):
        import casadi as ca
        f = ca.Function('v', [self.o.vx, self.o.vp], [ca.MX(e)])
        r = f(self.xv, self.o.pvec)
        return np.array(r.full()) if hasattr(r, 'full') else np.array(r)


def mat_compare(arr, pred, nt, rows, cols, what):
    """arr: numpy array in the documented layout [i, r, c] with singleton dims removed."""
    want_shape = ((nt,) if nt is not None else ()) + tuple(d for d in (rows, cols) if d != 1)
    arr = np.array(arr)
    if tuple(arr.shape) != want_shape:
        if not (want_shape == () and arr.size == 1):
            return 'mismatch', '%s shape %s, documented %s' % (what, tuple(arr.shape), want_shape)
    a = arr.reshape((nt if nt is not None else 1, rows, cols))
    inc = False
    for i in range(a.shape[0]):
        for r in range(rows):
            for c in range(cols):
                p = pred[i][r][c]
                if isbad(p): inc = True; continue
                if not close(float(a[i, r, c]), p):
                    return 'mismatch', '%s entry [%d,%d,%d] obs=%r pred=%s' % (what, i, r, c, float(a[i, r, c]), Fr(p[0], p[1]))
    return ('inconclusive', 'BAD') if inc else ('ok', '')


def matrix_read(b, o, xv, rd, pr, tag):
    import casadi as ca
    from rockit.solution import OcpSolution
    out = []
    rows = len(rd['es']); cols = len(rd['es'][0])
    E = ca.vertcat(*[ca.horzcat(*[mx(b, e) for e in row]) for row in rd['es']])
    sol = OcpSolution(FakeSol(o, xv), b.ocp)
    if rd['kind'] == 'mvalue':
        sym = np.array(value_fn(o, E)(xv, o.pvec)).reshape(rows, cols)
        out.append((tag + ':value', ) + mat_compare(sym if (rows, cols) != (1, 1) else sym.reshape(()), pr['v'], None, rows, cols, 'ocp.value'))
        num = quiet(sol.value, E)
        out.append((tag.replace('C07.b', 'C07.c') + ':sol.value', ) + mat_compare(np.array(num).squeeze() if (rows == 1 or cols == 1) else np.array(num), pr['v'], None, rows, cols, 'sol.value'))
        return out
    grid = 'integrator_roots' if rd['grid'] == 'roots' else rd['grid']
    nt = len(pr['t'])
    t, v = sample_fn(o, E, grid)(xv, o.pvec)
    t = np.array(t).reshape(-1); v = np.array(v)
    out.append((tag + ':t:' + rd['grid'],) + seq_compare(list(t), pr['t']))
    # symbolic sample: horizontal concatenation of the expression's values, one block per time point
    if v.shape != (rows, cols * nt):
        out.append((tag + ':sym:' + rd['grid'], 'mismatch', 'ocp.sample shape %s for %dx%d at %d points' % (v.shape, rows, cols, nt)))
    else:
        a = np.stack([v[:, i * cols:(i + 1) * cols] for i in range(nt)])
        out.append((tag + ':sym:' + rd['grid'],) + mat_compare(a.reshape((nt,) + tuple(d for d in (rows, cols) if d != 1)), pr['v'], nt, rows, cols, 'ocp.sample'))
    ts, num = quiet(sol.sample, E, grid=grid)
    out.append((tag.replace('C07.a', 'C07.c') + ':sol:' + rd['grid'],) + mat_compare(num, pr['v'], nt, rows, cols, 'sol.sample'))
    out.append((tag.replace('C07.a', 'C07.c') + ':solt:' + rd['grid'],) + seq_compare(list(np.array(ts).reshape(-1)), pr['t']))
    return out


def probe_assign(decl, probe, o):
    """Ingredient assignment from a probe: only quantities that are decision variables."""
    m = decl['method']; N = m['N']
    a = {}
    for k in range(N + 1):
        for i in range(len(decl['states'])):
            key = ('x', i, k)
            if o.ing.get(key) is not None:
                a[key] = fl(probe['X'][k][i])
    for k in range(N):
        for i in range(len(decl['controls'])):
            a[('u', i, k)] = fl(probe['U'][k][i])
    for i, v in enumerate(decl['vars']):
        for c, val in enumerate(probe['V'][i]):
            a[('v', i, c)] = fl(val)
    if m['kind'] == 'DC':
        M = m['M']; deg = m['degree']
        for k in range(N):
            for l in range(M):
                for i in range(len(decl['states'])):
                    if l >= 1: a[('xi', i, k * M + l)] = fl(probe['XI'][k][l][i])
                    for j in range(deg):
                        a[('xr', i, (k * M + l) * deg + j)] = fl(probe['XR'][k][l][j][i])
                for i in range(len(decl['algs'])):
                    for j in range(deg):
                        a[('zr', i, (k * M + l) * deg + j)] = fl(probe['ZR'][k][l][j][i])
    if decl['T']['kind'] == 'free': a[('T', 0, 0)] = fl(probe['T'])
    if decl['t0']['kind'] == 'free': a[('t0', 0, 0)] = fl(probe['t0'])
    g = m['grid']
    if g['lt0']:
        for k in range(1, N + 1):
            a[('tn', 0, k)] = fl(probe['gv']['t0l'][k])
    if g['lT'] or g['kind'] == 'free':
        for k in range(N):
            if o.ing.get(('Tl', 0, k)) is not None:
                a[('Tl', 0, k)] = fl(probe['gv']['Tl'][k])
    return a


def start_compare(decl, ps, o):
    """Physical starting value of every ingredient that is a decision variable vs the prediction."""
    out = []
    m = decl['method']; N = m['N']
    def val(key):
        loc = o.ing.get(key)
        return None if loc is None else o.x0[loc[0]] * loc[1]
    groups = {}
    def chk(group, key, p):
        v = val(key)
        if v is None: return
        g = groups.setdefault(group, {'inc': 0, 'bad': []})
        if isbad(p): g['inc'] += 1
        elif not close(v, p): g['bad'].append('%s start=%r guess=%s' % (key, v, Fr(p[0], p[1])))
        else: g.setdefault('ok', 0); g['ok'] = g.get('ok', 0) + 1
    for k in range(N + 1):
        for i in range(len(decl['states'])): chk('x', ('x', i, k), ps['X'][k][i])
    for k in range(N):
        for i in range(len(decl['controls'])): chk('u', ('u', i, k), ps['U'][k][i])
    for i, v in enumerate(decl['vars']):
        for c, p in enumerate(ps['V'][i]): chk('v', ('v', i, c), p)
    if decl['T']['kind'] == 'free': chk('T', ('T', 0, 0), ps['T'])
    if decl['t0']['kind'] == 'free': chk('t0', ('t0', 0, 0), ps['t0'])
    if m['kind'] == 'DC':
        M = m['M']; deg = m['degree']
        for k in range(N):
            for l in range(M):
                for i in range(len(decl['states'])):
                    if l >= 1: chk('xi', ('xi', i, k * M + l), ps['XI'][k][l][i])
                    for j in range(deg): chk('xr', ('xr', i, (k * M + l) * deg + j), ps['XR'][k][l][j][i])
                for i in range(len(decl['algs'])):
                    for j in range(deg): chk('zr', ('zr', i, (k * M + l) * deg + j), ps['ZR'][k][l][j][i])
    g_ = m['grid']
    if g_['lt0']:
        for k in range(1, N + 1): chk('grid', ('tn', 0, k), ps['gv']['t0l'][k])
    if g_['lT'] or g_['kind'] == 'free':
        for k in range(N):
            if not (g_['kind'] != 'free' and k == 0): chk('grid', ('Tl', 0, k), ps['gv']['Tl'][k])
    for grp, g in groups.items():
        if g['bad']: out.append(('C10.start:' + grp, 'mismatch', '; '.join(g['bad'][:4])))
        elif g['inc'] and not g.get('ok'): out.append(('C10.start:' + grp, 'inconclusive', ''))
        else: out.append(('C10.start:' + grp, 'ok', ''))
    return out


FAMPREFIX = ('C09', 'C11', 'C14', 'C18')


def replay(rec):
    out = replay0(rec)
    fam = 'C18' if rec.get('saveload') else rec.get('fam')
    if fam in FAMPREFIX:
        out['results'] = [((c if c.startswith(fam + '.') or c in ('build', 'varmap', 'harness') else fam + '.' + c), s, d) for c, s, d in out['results']]
    return out


def replay0(rec):
    """Returns dict(results=[(clause, status, detail)], error=None|str)."""
    decl, probe, pred = rec['decl'], rec['probe'], rec['pred']
    res = []
    if any(isbad(v) for xk in probe['X'] for v in xk):
        return {'results': [('probe', 'inconclusive', 'probe construction met BAD arithmetic')], 'error': None}
    when = rec.get('sc', {}).get('when')
    after = when in ('after', 'split')
    try:
        if when == 'split':
            # all guesses but the last before the first transcription, the last one after it
            import copy as _copy
            d_first = _copy.deepcopy(decl); d_first['init'] = decl['init'][:-1]
            d_last = _copy.deepcopy(decl); d_last['init'] = decl['init'][-1:]
            b = build(d_first, after_init=False); b.decl = decl
        else:
            b = build(decl, after_init=after)
        if after:
            from observe import transcribe
            from build import apply_guesses
            transcribe(b)
            quiet(apply_guesses, b, d_last if when == 'split' else decl)
        if rec.get('saveload'):
            from build import through_save_load
            b_orig = b
            b = through_save_load(b)
        o = observe(b)
    except Exception as e:
        return {'results': [('build', 'error', '%s: %s' % (type(e).__name__, str(e).splitlines()[0] if str(e) else ''))],
                'error': traceback.format_exc()}
    m = decl['method']
    assign = probe_assign(decl, probe, o)
    xv, missing = set_x(o, assign)
    if missing:
        res.append(('varmap', 'mismatch', 'ingredients that are not decision variables: %s' % missing))
    f, by_cid, recs = slacks_by_cid(o, xv)

    # ---- dynamics rows (C01.a): equality rows without a cid that involve states
    DYN = {'x', 'xi', 'xr', 'zr'}
    isdyn = lambda r: r['cid'] is None and r['kind'] == 'eq' and bool(DYN & set(r['classes']))
    dyn = [abs(r['vals'][0]) for r in recs if isdyn(r)]
    pg = [v for gk in pred['gaps'] for v in gk]
    st, det = bag_compare(dyn, pg, absval=True)
    res.append(('C02.rows' if m['kind'] == 'DC' else 'C01.a', st, det))

    # ---- declared constraints (C04): per cid bag of slacks
    infcids = {pi['cid'] for pi in pred.get('inf', [])}
    for pc in pred['cons']:
        cid = pc['cid']
        if cid in infcids: continue
        got = by_cid.get(cid, {'eq': [], 'ineq': []})
        iseq = pc['rel'] == 'eq'
        req = [s for inst in pc['inst'] if not inst['const'] for s in inst['s']]
        opt = [inst['s'] for inst in pc['inst'] if inst['const']]
        st, det = bag_compare_optional(got['eq'] if iseq else got['ineq'], req, opt, absval=iseq)
        if iseq and got['ineq']: st, det = 'mismatch', 'equality constraint produced inequality rows'
        if not iseq and got['eq']: st, det = 'mismatch', 'inequality constraint produced equality rows'
        res.append(('C04.rows:' + cid, st, det))
    for pi in pred.get('inf', []):
        got = by_cid.get(pi['cid'], {'eq': [], 'ineq': []})
        st, det = bag_compare(got['ineq'], pi['s'])
        if got['eq']: st, det = 'mismatch', 'inf constraint produced equality rows'
        res.append(('C15.rows:' + pi['cid'], st, det[:300]))
    known = {pc['cid'] for pc in pred['cons']}
    for cid in by_cid:
        if cid is not None and cid not in known:
            res.append(('C04.g', 'mismatch', 'rows tagged %r not declared' % cid))
    # nothing else: rows without cid are dynamics equalities, or involve only horizon/grid variables
    for r in recs:
        if r['cid'] is None and not isdyn(r):
            if set(r['classes']) - {'T', 't0', 'tn', 'Tl'} or not r['classes']:
                res.append(('C04.g', 'mismatch', 'unexplained row %d kind=%s deps=%s' % (r['row'], r['kind'], r['classes'])))
    # ---- grid rows (C06.f/g): all rows that involve only horizon / grid variables hold  <=>  declared feasibility
    if 'gridfeas' in pred:
        grows = [r for r in recs if r['cid'] is None and not isdyn(r)
                 and r['classes'] and not (set(r['classes']) - {'T', 't0', 'tn', 'Tl'})]
        feas = all((abs(r['vals'][0]) <= 1e-9) if r['kind'] == 'eq' else all(v >= -1e-9 for v in r['vals']) for r in grows)
        res.append(('C06.f', 'ok' if feas == bool(pred['gridfeas']) else 'mismatch',
                    'grid rows %s at this probe, declared partition/bounds %s; rows=%s' % (
                        'hold' if feas else 'violated', 'hold' if pred['gridfeas'] else 'violated',
                        [(r['kind'], [round(float(v), 6) for v in r['vals']], r['classes']) for r in grows])))
    # ---- objective (C05)
    if isbad(pred['f']): res.append(('C05.f', 'inconclusive', 'BAD arithmetic'))
    else: res.append(('C05.f', 'ok' if close(f, pred['f']) else 'mismatch', 'obs=%r pred=%s' % (f, Fr(*pred['f']))))

    # ---- starting point in physical units (C10), T >= 0 (C11.b), scales of solver variables (C14.a)
    if 'start' in pred:
        res.extend(start_compare(decl, pred['start'], o))
    if 'tpos' in pred:
        trows = [r for r in recs if r['cid'] is None and r['kind'] == 'ineq' and r['classes'] == ['T'] and len(r['vals']) == 1]
        if isbad(pred['tpos']['slack']): res.append(('C11.b:tpos', 'inconclusive', ''))
        elif pred['tpos']['present']:
            hit = [r for r in trows if close(r['vals'][0], pred['tpos']['slack'])]
            res.append(('C11.b:tpos', 'ok' if hit else 'mismatch', 'rows on T alone: %s ; expected one with slack T=%s' % ([r['vals'] for r in trows], Fr(*pred['tpos']['slack']))))
        else:
            res.append(('C11.b:tpos', 'ok' if not trows else 'mismatch', 'fixed horizon but rows on T: %s' % [r['vals'] for r in trows]))
    if 'scales' in pred:
        bad = []
        for kind, key in (('x', 'x'), ('u', 'u'), ('v', 'v'), ('x', 'xi'), ('x', 'xr'), ('z', 'zr')):
            for i, sc_ in enumerate(pred['scales'][kind]):
                for (k_, i_, c_), loc in o.ing.items():
                    if k_ == key and i_ == i and loc is not None and not close(loc[1], sc_):
                        bad.append('%s%d@%d: d(physical)/d(solver variable)=%r, declared scale %s' % (key, i + 1, c_, loc[1], Fr(*sc_)))
        res.append(('C14.a:varscale', 'mismatch' if bad else 'ok', '; '.join(bad[:4])))
    # ---- read-backs
    for ri, (rd, pr) in enumerate(zip(decl['reads'], pred['reads'])):
        tag = '%s:read%d:%s:%s' % (rd.get('tag', 'read'), ri, rd['kind'], rd.get('grid', ''))
        try:
            if rd['kind'] in ('msample', 'mvalue'):
                res.extend(matrix_read(b, o, xv, rd, pr, tag)); continue
            if rd['kind'] == 'refine':
                fn = sample_fn(o, mx(b, rd['e']), 'integrator', refine=rd['refine'])
                t, v = fn(xv, o.pvec)
                t = list(np.array(t).reshape(-1)); v = list(np.array(v).reshape(-1))
                pt, pv_ = pr['t'], pr['v']
                if m['kind'] == 'DC':
                    # generic probes are not dynamically feasible for collocation: the end of the last polynomial is not X[N]
                    t, v, pt, pv_ = t[:-1], v[:-1], pt[:-1], pv_[:-1]
                res.append((tag + ':t',) + seq_compare(t, pt))
                res.append((tag + ':v',) + seq_compare(v, pv_))
                continue
            if rd['kind'] == 'sampler':
                import casadi as ca
                f = quiet(b.ocp.sampler, mx(b, rd['e']))
                gist = np.array(ca.Function('g', [o.vx, o.vp], [quiet(lambda: b.ocp.gist)])(xv, o.pvec)).reshape(-1)
                ok_t = [i for i, p in enumerate(pr['t']) if not isbad(p)]
                tq = np.array([float(Fr(*pr['t'][i])) for i in ok_t])
                vals = np.array(f(gist, tq)).reshape(-1)
                res.append((tag + ':v',) + seq_compare(list(vals), [pr['v'][i] for i in ok_t]))
                continue
            if rd['kind'] == 'value':
                fn = value_fn(o, mx(b, rd['e']))
                v = np.array(fn(xv, o.pvec)).reshape(-1)
                st, det = seq_compare(list(v), pr['v'])
                res.append((tag + ':v', st, det))
            else:
                kw = {}
                if rd.get('refine'): kw['refine'] = rd['refine']
                fn = sample_fn(o, mx(b, rd['e']), 'integrator_roots' if rd['grid'] == 'roots' else rd['grid'], **kw)
                t, v = fn(xv, o.pvec)
                t = np.array(t).reshape(-1); v = np.array(v).reshape(-1)
                st, det = seq_compare(list(t), pr['t'])
                res.append((tag + ':t', st, det))
                st, det = seq_compare(list(v), pr['v'])
                res.append((tag + ':v', st, det))
        except Exception as e:
            res.append((tag, 'error', '%s: %s' % (type(e).__name__, (str(e).splitlines() or [''])[0])))
    return {'results': res, 'error': None}
