#!/usr/bin/env python3
"""Seeded-defect bookkeeping.
  seedtool.py verify <out_dir> <letter> <PROP>   confirm a sub-agent's change in a scratch worktree (demo passes clean / fails changed,
                                                  repository test-suite unchanged) and store it as /verif/seeded/<PROP>-<letter>/
  seedtool.py detect <id> [PROP ...]             apply seeded/<id>/patch.diff to /repo, run the quick checks, undo, record which checks fire
"""
import sys, os, json, subprocess, shutil, tempfile, time
ROOT = os.path.abspath(os.path.join(os.path.dirname(os.path.abspath(__file__)), '..'))
REPO = '/repo'


def sh(cmd, **kw):
    return subprocess.run(cmd, shell=True, capture_output=True, text=True, **kw)


def verify(out_dir, letter, prop, tag=''):
    sid = '%s-%s%s' % (prop, tag, letter)
    wt = tempfile.mkdtemp(prefix='seedwt_', dir='/tmp')
    os.rmdir(wt)
    assert sh('git -C %s worktree add -q --detach %s HEAD' % (REPO, wt)).returncode == 0
    meta = {'id': sid, 'property': prop, 'verified_at': time.strftime('%Y-%m-%dT%H:%M:%SZ', time.gmtime())}
    try:
        patch = os.path.join(out_dir, 'mutant%s.diff' % letter); demo = os.path.join(out_dir, 'demo%s.py' % letter)
        env = dict(os.environ, PYTHONPATH=wt)
        r0 = subprocess.run(['/venv/bin/python', demo], env=env, capture_output=True, text=True, cwd=wt, timeout=1800)
        meta['demo_clean_exit'] = r0.returncode
        a = sh('git -C %s apply %s' % (wt, patch))
        meta['apply'] = a.returncode
        r1 = subprocess.run(['/venv/bin/python', demo], env=env, capture_output=True, text=True, cwd=wt, timeout=1800)
        meta['demo_mutant_exit'] = r1.returncode
        meta['demo_mutant_tail'] = (r1.stdout + r1.stderr)[-400:]
        junit = os.path.join(wt, 'junit.xml')
        subprocess.run('/venv/bin/python -m pytest -q -p no:cacheprovider --timeout=900 --continue-on-collection-errors --junitxml=%s tests > /dev/null 2>&1' % junit,
                       shell=True, env=env, cwd=wt, timeout=3600)
        b = sh('python3 %s/harness/baseline.py %s' % (ROOT, junit))
        meta['tests'] = b.stdout.strip().splitlines()[0] if b.stdout else 'no junit'
        meta['tests_ok'] = b.returncode == 0
        ok = meta['demo_clean_exit'] == 0 and meta['apply'] == 0 and meta['demo_mutant_exit'] != 0 and meta['tests_ok']
        meta['confirmed'] = ok
        dst = os.path.join(ROOT, 'seeded', sid)
        if ok:
            os.makedirs(dst, exist_ok=True)
            shutil.copy(patch, os.path.join(dst, 'patch.diff')); shutil.copy(demo, os.path.join(dst, 'demo.py'))
            notes = os.path.join(out_dir, 'notes.md')
            if os.path.exists(notes): shutil.copy(notes, os.path.join(dst, 'agent_notes.md'))
            meta['ran'] = ['demo on clean scratch worktree (exit 0)', 'git apply patch.diff', 'demo on changed worktree (exit %d)' % meta['demo_mutant_exit'],
                           'repository test-suite on changed worktree: ' + meta['tests']]
            json.dump(meta, open(os.path.join(dst, 'meta.json'), 'w'), indent=1)
        print(json.dumps(meta, indent=1))
    finally:
        sh('git -C %s worktree remove --force %s' % (REPO, wt))
        shutil.rmtree(wt, ignore_errors=True)


def detect(sid, props):
    dst = os.path.join(ROOT, 'seeded', sid)
    meta = json.load(open(os.path.join(dst, 'meta.json')))
    props = props or [meta['property']]
    assert sh('git -C %s status --porcelain --untracked-files=no' % REPO).stdout.strip() == '', '/repo not clean'
    a = sh('git -C %s apply %s' % (REPO, os.path.join(dst, 'patch.diff')))
    assert a.returncode == 0, a.stderr
    res = meta.setdefault('detection', {})
    try:
        for p in props:
            t = time.time()
            r = sh('cd %s && ./check %s --tier quick' % (ROOT, p))
            viol = [l for l in r.stdout.splitlines() if l.startswith('VIOLATION')]
            clauses = sorted({l.strip().split()[0] for l in r.stdout.splitlines() if l.strip().startswith('clause=')})
            res[p] = {'exit': r.returncode, 'violations': len(viol), 'clauses': clauses[:8], 'wall_s': round(time.time() - t, 1)}
            print(sid, p, res[p])
    finally:
        sh('git -C %s checkout -- .' % REPO)
    json.dump(meta, open(os.path.join(dst, 'meta.json'), 'w'), indent=1)
    # restore the evidence of the unchanged tree
    for p in props:
        sh('cd %s && git checkout -- evidence/%s.json' % (ROOT, p))


def regress(sids, workers=4):
    """Detection of many stored changes in parallel: each worker owns a scratch worktree of /repo (HEAD + the change) and an
    output directory of its own; /repo and the committed evidence are not touched."""
    import queue, threading, shutil, glob
    sids = sids or sorted(os.path.basename(d) for d in glob.glob(os.path.join(ROOT, 'seeded', '*')) if os.path.isdir(d))
    head = sh('git -C %s rev-parse --short HEAD' % REPO).stdout.strip()
    q = queue.Queue()
    for s_ in sids: q.put(s_)
    lock = threading.Lock()
    def work(i):
        wt = '/tmp/wt/rg%d' % i; out = '/tmp/wt/rg%d_out' % i
        sh('git -C %s worktree remove --force %s' % (REPO, wt)); shutil.rmtree(out, ignore_errors=True)
        r = sh('git -C %s worktree add -q --detach %s HEAD' % (REPO, wt)); assert r.returncode == 0, r.stderr
        os.makedirs(out, exist_ok=True)
        try:
            while True:
                try: sid = q.get_nowait()
                except queue.Empty: break
                dst = os.path.join(ROOT, 'seeded', sid)
                meta = json.load(open(os.path.join(dst, 'meta.json')))
                a = sh('git -C %s apply %s' % (wt, os.path.join(dst, 'patch.diff')))
                if a.returncode != 0:
                    with lock: print(sid, 'DOES-NOT-APPLY', flush=True)
                    continue
                res = {}
                try:
                    props = list((meta.get('detection') or {}).keys()) or [meta['property']]
                    # the property the change was written against first; stop at the first check that reports it
                    props = [meta['property']] + [p for p in props if p != meta['property']]
                    for p in props:
                        t = time.time()
                        r = sh('cd %s && ROCKIT_REPO=%s VERIF_OUT=%s ./check %s --tier quick' % (ROOT, wt, out, p))
                        viol = [l for l in r.stdout.splitlines() if l.startswith('VIOLATION')]
                        clauses = sorted({l.strip().split()[0] for l in r.stdout.splitlines() if l.strip().startswith('clause=')})
                        res[p] = {'exit': r.returncode, 'violations': len(viol), 'clauses': clauses[:8], 'wall_s': round(time.time() - t, 1)}
                        if r.returncode == 1 and viol: break
                finally:
                    sh('git -C %s checkout -q -- . && git -C %s clean -fdq' % (wt, wt))
                meta['regress'] = {'head': head, 'results': res, 'detected': any(v['exit'] == 1 and v['violations'] for v in res.values())}
                json.dump(meta, open(os.path.join(dst, 'meta.json'), 'w'), indent=1)
                with lock: print(sid, 'DETECTED' if meta['regress']['detected'] else 'MISSED', {k: (v['exit'], v['clauses'][:2]) for k, v in res.items()}, flush=True)
        finally:
            sh('git -C %s worktree remove --force %s' % (REPO, wt)); shutil.rmtree(out, ignore_errors=True)
    ths = [threading.Thread(target=work, args=(i,)) for i in range(workers)]
    for t in ths: t.start()
    for t in ths: t.join()


if __name__ == '__main__':
    if sys.argv[1] == 'verify': verify(*sys.argv[2:6])
    elif sys.argv[1] == 'detect': detect(sys.argv[2], sys.argv[3:])
    elif sys.argv[1] == 'regress': regress(sys.argv[2:])
