"""C17.c conformance: SplineMethod on integrator chains against ScenSplineM.tla (BSplines.tla)."""
import traceback
from fractions import Fraction as Fr
import numpy as np
import casadi as ca
import build as _b
from rockit import Ocp, SplineMethod
from rockit.sampling_method import FunctionGrid
from replay_nlp import close, isbad, seq_compare, bag_compare
from observe import quiet, locate
from splines import _inputs

fl = lambda a: float(Fr(a[0], a[1]))


def meta(cid):
    return {"stacktrace": [{"cid": cid}]}


def replay(rec):
    sc = rec['sc']; L = sc['L']; N = sc['N']; r = sc['refine']
    res = []
    try:
        nodes = [fl(v) for v in rec['xi']]
        from rockit import FreeTime
        free = sc.get('hz') == 'fT'
        ocp = Ocp(t0=fl(sc['t0']), T=FreeTime(fl(sc['T']) + 0.75) if free else fl(sc['T']))
        xs = [ocp.state() for _ in range(L - 1)]
        u = ocp.control()
        chain = xs + [u]
        for i in range(L - 1): ocp.set_der(xs[i], chain[i + 1])
        # a global parameter in the path and boundary constraints (value 1/4: the bounds are the 9 and 1/2 of the specification)
        par = ocp.parameter(); ocp.set_value(par, 0.25)
        ocp.subject_to(chain[0] + chain[1] <= 8 + 4 * par, refine=r, include_first=bool(sc.get('incF', True)), include_last=bool(sc.get('incL', True)), meta=meta('path'))
        ocp.subject_to(ocp.next(chain[0]) - chain[0] <= 6, meta=meta('step'))
        ocp.subject_to(chain[0] - ocp.prev(chain[0]) <= 6 + ocp.t, meta=meta('stepb'))
        ocp.subject_to(ocp.at_t0(chain[0]) == 2 * par, meta=meta('bnd0'))
        ocp.subject_to(ocp.at_tf(chain[1]) == -1, meta=meta('bndf'))
        ocp.add_objective(ocp.at_tf(chain[0]) ** 2 + ocp.sum(chain[-1] ** 2))
        ocp.add_objective(ocp.integral(chain[1], grid='control'))
        ocp.add_objective(ocp.integral(chain[0] * chain[1]))
        xx = ca.vertcat(chain[0], chain[1]); dx = ocp.next(xx) - xx
        ocp.add_objective(ocp.sum(ca.dot(dx, dx)))
        ocp.add_objective(ocp.integral(ocp.next(chain[0]) * chain[1], grid='control'))
        ocp.solver('ipopt')
        def grid_fun(n):
            # the method asks for the refined grid as well: equal subdivision of every control interval
            f = n // N
            out = []
            for k in range(N):
                out += [nodes[k] + (nodes[k + 1] - nodes[k]) * j / f for j in range(f)]
            return out + [nodes[-1]]
        # geometric breakpoints through rockit's own GeometricGrid (ratio 2 per interval), uniform ones through UniformGrid
        from rockit import GeometricGrid, UniformGrid
        ocp.method(SplineMethod(N=N, grid=GeometricGrid(2, local=True) if sc['g'] == 'geo' else UniformGrid()))
        quiet(lambda: ocp._transcribed)
        opti, vx, vp = _inputs(ocp)
        nx = vx.numel(); pv = np.array(opti.debug.value(vp, opti.initial())).reshape(-1)
        rng = np.random.RandomState(5)
        pts = [(rng.uniform(0.5, 1.5, nx), pv), (rng.uniform(-1.5, -0.5, nx), pv)]
        tg, C = quiet(ocp.sample, chain[0], grid='gist')
        loc = locate(C, opti, pts)
        d = L - 1
        if len(loc) != N + d or any(l is None for l in loc):
            return {'results': [('C17.c:gist', 'mismatch', "sample(x, grid='gist') has %d entries, expected %d coefficient variables" % (len(loc), N + d))], 'error': None}
        xv = np.zeros(nx)
        for l, cval in zip(loc, rec['coef']): xv[l[0]] = fl(cval) / l[1]
        if free:
            tl = locate(quiet(ocp.value, ocp.T), opti, pts)[0]
            if tl is None: return {'results': [('C17.c:freeT', 'mismatch', 'the free horizon is not a decision variable')], 'error': None}
            xv[tl[0]] = fl(sc['T']) / tl[1]
        ev = lambda e: np.array(ca.Function('f', [vx, vp], [e])(xv, pv)).reshape(-1)
        res.append(('C17.c:greville',) + seq_compare(list(ev(tg)), rec['greville']))
        fobs = float(ev(opti.f)[0])
        from fractions import Fraction as _F
        if not isbad(rec['obj']) and not isbad(rec['objn']):
            tot = _F(*rec['obj']) + _F(*rec['objn']); rec = dict(rec, obj=[tot.numerator, tot.denominator])
        elif isbad(rec['objn']): rec = dict(rec, obj=rec['objn'])
        res.append(('C17.c:f', 'inconclusive' if isbad(rec['obj']) else 'ok' if close(fobs, rec['obj']) else 'mismatch', 'objective at the probe %r, declared terms sum to %s' % (fobs, Fr(*rec['obj']) if not isbad(rec['obj']) else 'n/a')))
        for i, s in enumerate(chain):
            _, v = quiet(ocp.sample, s, grid='control')
            res.append(('C17.c:control:m%d' % i,) + seq_compare(list(ev(v)), rec['control'][i]))
            if r > 1:
                t, v = quiet(ocp.sample, s, grid='control', refine=r)
                res.append(('C17.c:refined:m%d' % i,) + seq_compare(list(ev(v)), rec['refined'][i]))
                if i == 0: res.append(('C17.c:refined_t',) + seq_compare(list(ev(t)), rec['times']))
        # every member of the chain reports its own coefficients on the 'gist' grid: N + (degree) of them, at the Greville points of
        # its own degree, and their Cox-de Boor evaluation (scipy) is the member's sample on the control grid
        from scipy.interpolate import BSpline as _BS
        for i, s in enumerate(chain):
            try:
                k = d - i
                tgi, Ci = quiet(ocp.sample, s, grid='gist')
                tv = ev(tgi); cv = ev(Ci)
                nd = np.array(ev(quiet(ocp.sample, s, grid='control')[0]))
                knots = np.concatenate([[nd[0]] * k, nd, [nd[-1]] * k])
                want_t = [np.mean(knots[j + 1:j + k + 1]) for j in range(N + k)] if k > 0 else list((nd[1:] + nd[:-1]) / 2)
                okg = len(tv) == N + k and len(cv) == N + k and np.allclose(tv, want_t, rtol=0, atol=1e-9)
                det = 'coefficient times %s, Greville points of degree %d %s' % (np.round(tv, 6).tolist(), k, np.round(want_t, 6).tolist())
                if okg:
                    pts_ = nd if k > 0 else nd[:-1]
                    val = _BS(knots if k > 0 else nd, cv, k, extrapolate=False)(pts_)
                    got = ev(quiet(ocp.sample, s, grid='control')[1])[:len(pts_)]
                    okg = np.allclose(val, got, rtol=1e-9, atol=1e-9)
                    det = 'spline of the reported coefficients at the nodes %s, sampled %s' % (np.round(val, 6).tolist(), np.round(got, 6).tolist())
                res.append(('C17.c:gist:m%d' % i, 'ok' if okg else 'mismatch', det))
            except Exception as e:
                res.append(('C17.c:gist:m%d' % i, 'mismatch', "sample(.., grid='gist') of chain member %d fails: %s: %s" % (i, type(e).__name__, (str(e).splitlines() or [''])[-1][:160])))
        # rows: the path constraint at every (refined) grid point, boundary constraints once
        adv = opti.advanced
        g = np.array(ca.Function('g', [vx, vp], [opti.g])(xv, pv)).reshape(-1)
        lb = np.array(ca.Function('g', [vx, vp], [opti.lbg])(xv, pv)).reshape(-1)
        ub = np.array(ca.Function('g', [vx, vp], [opti.ubg])(xv, pv)).reshape(-1)
        by = {}
        for i in range(opti.ng):
            cid = None
            try:
                st = opti.user_dict(adv.g_lookup(i)).get('stacktrace')
                cid = st.get('cid') if isinstance(st, dict) else None
            except Exception:
                pass
            if lb[i] == ub[i]: by.setdefault(cid, []).append(abs(g[i] - lb[i]))
            else:
                if np.isfinite(ub[i]): by.setdefault(cid, []).append(ub[i] - g[i])
                if np.isfinite(lb[i]): by.setdefault(cid, []).append(g[i] - lb[i])
        # SplineMethod does not forward the call-site metadata of path constraints: they are the untagged rows
        # (a free horizon brings its own untagged row T >= 0, whose slack at the probe is T)
        res.append(('C17.c:rows:path',) + bag_compare(by.get('path', []) + by.get('step', []) + by.get('stepb', []) + by.get(None, []), rec['path'] + rec['step'] + rec['stepb'] + ([sc['T']] if free else [])))
        res.append(('C17.c:rows:bnd0',) + bag_compare(by.get('bnd0', []), [rec['bnd0']], absval=True))
        res.append(('C17.c:rows:bndf',) + bag_compare(by.get('bndf', []), [rec['bndf']], absval=True))
        extra = [k for k in by if k not in ('path', 'step', 'stepb', 'bnd0', 'bndf', None)]
        res.append(('C17.c:rows:extra', 'ok' if not extra else 'mismatch', 'unexplained row groups %s' % extra))
        if r >= 2 and sc.get('incF', True) and sc.get('incL', True):      # (grouped() reads the values at *all* refined points from rec['path'])
            res.extend(grouped(rec, nodes, grid_fun))
        if r == 1:
            try:
                res.extend(infcons(rec))
            except Exception as e:
                res.append(('C17.c:rows:inf', 'error', '%s: %s' % (type(e).__name__, (str(e).splitlines() or [''])[-1][:200])))
        return {'results': res, 'error': None}
    except Exception as e:
        return {'results': res + [('C17.c', 'error', '%s: %s' % (type(e).__name__, (str(e).splitlines() or [''])[-1][:200]))], 'error': traceback.format_exc()}


def mixedchain():
    """C10 under SplineMethod: a vector state whose components sit on integrator chains of different length, with a guess
    that is linear in time and differs per component.  The coefficients start at the guess evaluated at their Greville
    points, and B-splines reproduce linear functions from those values (linear precision, checked by TLC in ScenSpline's
    SplineLaws): the starting trajectory of every component is its guess at every node."""
    from rockit import GeometricGrid, UniformGrid
    res = []
    coef = [(1.0, 0.5), (-3.0, 1.25)]
    from rockit import FreeTime
    for N, free in ((2, False), (3, False), (2, True), (3, True)):
        for grid in (UniformGrid(), GeometricGrid(2)):
            # (free: the horizon is a decision variable guessed at 2; the guess lives on the guessed time grid)
            ocp = Ocp(t0=0.5, T=FreeTime(2.0) if free else 2.0)
            p = ocp.state(2); v = ocp.state(); a = ocp.control(); w = ocp.control()
            ocp.set_der(p, ca.vertcat(v, w)); ocp.set_der(v, a)
            ocp.add_objective(ocp.sum(a ** 2 + w ** 2))
            ocp.subject_to(ocp.at_t0(p) == ca.vertcat(0, 1))
            ocp.set_initial(p, ca.vertcat(*[c1 * ocp.t + c0 for c1, c0 in coef]))
            ocp.solver('ipopt'); ocp.method(SplineMethod(N=N, grid=grid))
            quiet(lambda: ocp._transcribed)
            opti = ocp._method.opti
            ts, ps = quiet(ocp.sample, p, grid='control')
            tv = np.array(opti.debug.value(ts, opti.initial())).reshape(-1)
            pv = np.array(opti.debug.value(ps, opti.initial())).reshape(-1, len(tv)) if np.array(opti.debug.value(ps, opti.initial())).shape[0] == 2 else np.array(opti.debug.value(ps, opti.initial())).T.reshape(-1, len(tv))
            for i_, (c1, c0) in enumerate(coef):
                want = c1 * tv + c0
                ok = np.allclose(pv[i_], want, atol=1e-9)
                res.append(('C10.spline:start:p%d' % (i_ + 1), 'ok' if ok else 'mismatch', 'N=%d %s%s: starting trajectory %s, guess %s' % (N, type(grid).__name__, ' free T' if free else '', np.round(pv[i_], 6).tolist(), np.round(want, 6).tolist())))
    return res


def component_constraint():
    """C17.c with vector states: a path constraint on a single component of a vector state (and one mixing components of two
    vector states) gives the same NLP rows as the same problem written with scalar states.  Both problems are probed at the same
    spline coefficients (located through grid='gist' of every component)."""
    res = []
    for N, r in ((3, 1), (4, 2)):
        cl = 'C17.c:component:N%d:r%d' % (N, r)
        try:
            def build(vec):
                ocp = Ocp(t0=0.5, T=2.0)
                if vec:
                    p = ocp.state(2); v = ocp.state(2); a = ocp.control(2)
                    ocp.set_der(p, v); ocp.set_der(v, a)
                    P = [p[0], p[1]]; V = [v[0], v[1]]; A = [a[0], a[1]]
                else:
                    P = [ocp.state(), ocp.state()]; V = [ocp.state(), ocp.state()]; A = [ocp.control(), ocp.control()]
                    for i in range(2): ocp.set_der(P[i], V[i]); ocp.set_der(V[i], A[i])
                ocp.subject_to(V[1] <= 0.9, refine=r)
                ocp.subject_to(-4 <= (P[0] + 2 * V[1] - A[0] <= 3))
                ocp.subject_to(ocp.at_t0(P[1]) == 0.25); ocp.subject_to(ocp.at_tf(V[0]) == -1)
                ocp.add_objective(ocp.integral(A[0] ** 2 + A[1] ** 2, grid='control') + ocp.at_tf(P[1]) ** 2)
                ocp.solver('ipopt'); ocp.method(SplineMethod(N=N))
                quiet(lambda: ocp._transcribed)
                return ocp, P
            out = []
            rng = np.random.RandomState(11)
            coef = rng.uniform(-1, 1, size=(2, N + 2))
            for vec in (True, False):
                ocp, P = build(vec)
                opti, vx, vp = _inputs(ocp)
                nx = vx.numel(); pv = np.array(opti.debug.value(vp, opti.initial())).reshape(-1)
                pts = [(np.linspace(0.5, 1.5, nx), pv), (np.linspace(-1.5, -0.5, nx), pv)]
                xv = np.zeros(nx)
                for i in range(2):
                    loc = locate(quiet(ocp.sample, P[i], grid='gist')[1], opti, pts)
                    if len(loc) != N + 2 or any(l is None for l in loc): raise RuntimeError('coefficients of component %d not found' % i)
                    for l, c in zip(loc, coef[i]): xv[l[0]] = c / l[1]
                F = ca.Function('F', [vx, vp], [opti.f, opti.g, opti.lbg, opti.ubg])
                f, g, lb, ub = [np.array(e).reshape(-1) for e in F(xv, pv)]
                slack = sorted(np.round(np.concatenate([np.abs(g - lb)[lb == ub], (ub - g)[(lb != ub) & np.isfinite(ub)], (g - lb)[(lb != ub) & np.isfinite(lb)]]), 9).tolist())
                out.append((float(f[0]), slack, nx))
            (fa, sa, na), (fb, sb, nb) = out
            ok = na == nb and abs(fa - fb) < 1e-9 and len(sa) == len(sb) and np.allclose(sa, sb, rtol=0, atol=1e-8)
            res.append((cl, 'ok' if ok else 'mismatch', 'vector states: f %.9g, %d rows; scalar states: f %.9g, %d rows' % (fa, len(sa), fb, len(sb))))
        except Exception as e:
            res.append((cl, 'mismatch', 'a constraint on one component of a vector state cannot be transcribed: %s: %s' % (type(e).__name__, (str(e).splitlines() or [''])[-1][:160])))
    return res


def signal_bounds():
    """C17.c: a path constraint whose bound is a B-spline parameter (a time-varying reference) is imposed at every (refined) grid
    point with the bound sampled at that point: `v <= R`, `-R <= (v <= R)`, `v == R` give the rows of `v - R <= 0` etc."""
    res = []
    forms = [('ub', lambda v, R: v <= R, lambda v, R: [v - R <= 0]),
             ('box', lambda v, R: -R <= (v <= 2 * R), lambda v, R: [v - 2 * R <= 0, v + R >= 0]),
             ('lb-const-ub', lambda v, R: -3 <= (v <= R), lambda v, R: [v - R <= 0, v >= -3]),
             ('eq', lambda v, R: v == R, lambda v, R: [v - R == 0])]
    for name, direct, moved in forms:
        for r in (1, 2):
            cl = 'C17.c:signal_bound:%s:r%d' % (name, r)
            try:
                out = []
                for variant in (0, 1):
                    ocp = Ocp(t0=0.5, T=2.0)
                    p = ocp.state(); v = ocp.state(); a = ocp.control()
                    ocp.set_der(p, v); ocp.set_der(v, a)
                    R = ocp.parameter(grid='bspline', order=1); ocp.set_value(R, np.array([1.0, 0.8, 0.7, 0.9, 1.25]))
                    for c in ([direct(v, R)] if variant == 0 else moved(v, R)): ocp.subject_to(c, refine=r)
                    ocp.subject_to(ocp.at_t0(p) == 0); ocp.add_objective(ocp.integral(a ** 2, grid='control') + ocp.at_tf(p) ** 2)
                    ocp.solver('ipopt'); ocp.method(SplineMethod(N=4))
                    quiet(lambda: ocp._transcribed)
                    opti, vx, vp = _inputs(ocp)
                    pv = np.array(opti.debug.value(vp, opti.initial())).reshape(-1)
                    z = np.linspace(-0.7, 1.1, vx.numel())
                    F = ca.Function('F', [vx, vp], [opti.f, opti.g, opti.lbg, opti.ubg])
                    f, g, lb, ub = [np.array(e).reshape(-1) for e in F(z, pv)]
                    slack = sorted(np.round(np.concatenate([np.abs(g - lb)[lb == ub], (ub - g)[(lb != ub) & np.isfinite(ub)], (g - lb)[(lb != ub) & np.isfinite(lb)]]), 9).tolist())
                    out.append((float(f[0]), slack))
                (fa, sa), (fb, sb) = out
                ok = abs(fa - fb) < 1e-9 and len(sa) == len(sb) and np.allclose(sa, sb, rtol=0, atol=1e-8)
                res.append((cl, 'ok' if ok else 'mismatch', 'bound as written: %d rows %s; moved into the expression: %d rows %s' % (len(sa), sa[:5], len(sb), sb[:5])))
            except Exception as e:
                res.append((cl, 'mismatch', 'a B-spline parameter as the bound of a path constraint cannot be transcribed: %s: %s' % (type(e).__name__, (str(e).splitlines() or [''])[-1][:160])))
    return res


def signals_order():
    """SplineMethod with two B-spline signals declared in the order (parameter, variable): a degree-1 B-spline interpolates
    its coefficients at the breakpoints, so the control-grid samples of the parameter are the values it was given."""
    res = []
    for N in (2, 3, 4):
        ocp = Ocp(t0=0.0, T=2.0)
        x = ocp.state(); v = ocp.state(); u = ocp.control()
        ocp.set_der(x, v); ocp.set_der(v, u)
        pb = ocp.parameter(grid='bspline', order=1)           # declared before the variable
        vb = ocp.variable(grid='bspline', order=2)
        vals = [0.5 + 1.25 * k * k for k in range(N + 1)]
        ocp.set_value(pb, ca.DM(vals).T)
        ocp.add_objective(ocp.at_tf(x) ** 2 + ocp.sum(u ** 2 + vb ** 2))
        ocp.subject_to(ocp.at_t0(x) == 0)
        ocp.subject_to(vb + pb <= 100)
        ocp.solver('ipopt'); ocp.method(SplineMethod(N=N))
        try:
            quiet(lambda: ocp._transcribed)
            opti = ocp._method.opti
            got = np.array(opti.debug.value(quiet(ocp.sample, pb, grid='control')[1], opti.initial())).reshape(-1)
            ok = len(got) == N + 1 and all(abs(a - b) < 1e-9 for a, b in zip(got, vals))
            res.append(('C17.c:signal_order', 'ok' if ok else 'mismatch', 'N=%d: samples of the B-spline parameter %s, values given %s' % (N, np.round(got, 6).tolist(), vals)))
        except Exception as e:
            res.append(('C17.c:signal_order', 'error', '%s: %s' % (type(e).__name__, (str(e).splitlines() or [''])[-1][:160])))
    return res


def infcons(rec):
    """grid='inf' constraints under SplineMethod: rows = bounds on the B-spline coefficients of the constrained member."""
    sc = rec['sc']; L = sc['L']; N = sc['N']
    from rockit import GeometricGrid, UniformGrid
    ocp = Ocp(t0=fl(sc['t0']), T=fl(sc['T']))
    xs = [ocp.state() for _ in range(L - 1)]
    u = ocp.control()
    chain = xs + [u]
    for i in range(L - 1): ocp.set_der(xs[i], chain[i + 1])
    ocp.subject_to(chain[0] + 0.5 <= 7, grid='inf')
    ocp.subject_to(-6 <= (chain[1] - 0.5 <= 1.5), grid='inf')
    ocp.subject_to(ocp.at_t0(chain[0]) == 0.5, meta=meta('bnd0'))
    ocp.add_objective(ocp.at_tf(chain[0]) ** 2)
    ocp.solver('ipopt')
    ocp.method(SplineMethod(N=N, grid=GeometricGrid(2, local=True) if sc['g'] == 'geo' else UniformGrid()))
    quiet(lambda: ocp._transcribed)
    opti, vx, vp = _inputs(ocp)
    nx = vx.numel(); pv = np.zeros(vp.numel())
    rng = np.random.RandomState(5)
    pts = [(rng.uniform(0.5, 1.5, nx), pv), (rng.uniform(-1.5, -0.5, nx), pv)]
    tg, C = quiet(ocp.sample, chain[0], grid='gist')
    loc = locate(C, opti, pts)
    xv = np.zeros(nx)
    for l, cval in zip(loc, rec['coef']): xv[l[0]] = fl(cval) / l[1]
    adv = opti.advanced
    g = np.array(ca.Function('g', [vx, vp], [opti.g])(xv, pv)).reshape(-1)
    lb = np.array(ca.Function('g', [vx, vp], [opti.lbg])(xv, pv)).reshape(-1)
    ub = np.array(ca.Function('g', [vx, vp], [opti.ubg])(xv, pv)).reshape(-1)
    got = []
    for i in range(opti.ng):
        try:
            st = opti.user_dict(adv.g_lookup(i)).get('stacktrace')
            cid = st.get('cid') if isinstance(st, dict) else None
        except Exception:
            cid = None
        if cid == 'bnd0': continue
        if np.isfinite(ub[i]): got.append(ub[i] - g[i])
        if np.isfinite(lb[i]): got.append(g[i] - lb[i])
    want = rec['inf']['m0'] + rec['inf']['m1hi'] + rec['inf']['m1lo']
    return [('C17.c:rows:inf',) + bag_compare(got, want)]


def grouped(rec, nodes, grid_fun):
    """group_refine=LseGroup(...): the grouped rows are a conservative surrogate.  With the values of x1+x2 at every
    refined point predicted by TLC, two designed bounds decide both directions: (i) a lower bound between the smallest
    and the largest point value is violated at some point, so the grouped rows must be infeasible at this probe;
    (ii) bounds one unit outside the range (ten times the margin) must be accepted."""
    from rockit import LseGroup
    sc = rec['sc']; L = sc['L']; N = sc['N']; r = sc['refine']
    vals = [9.0 - fl(s_) for s_ in rec['path']]          # x1 + x2 at the refined points
    lo, hi = min(vals), max(vals)
    out = []
    if hi - lo < 0.5: return out
    for name, lb, ub, expect in (('violated_lower', (lo + hi) / 2, hi + 1, False), ('violated_upper', lo - 1, (lo + hi) / 2, False), ('satisfied', lo - 1, hi + 1, True)):
        ocp = Ocp(t0=fl(sc['t0']), T=fl(sc['T']))
        xs = [ocp.state() for _ in range(L - 1)]
        u = ocp.control(); chain = xs + [u]
        for i in range(L - 1): ocp.set_der(xs[i], chain[i + 1])
        ocp.subject_to(lb <= (chain[0] + chain[1] <= ub), refine=r, group_refine=LseGroup(margin_abs=0.1))
        ocp.add_objective(ocp.at_tf(chain[0]) ** 2)
        ocp.solver('ipopt')
        ocp.method(SplineMethod(N=N, grid=FunctionGrid(grid_fun)))
        quiet(lambda: ocp._transcribed)
        opti, vx, vp = _inputs(ocp)
        nx = vx.numel(); pv = np.zeros(vp.numel())
        rng = np.random.RandomState(5)
        pts = [(rng.uniform(0.5, 1.5, nx), pv), (rng.uniform(-1.5, -0.5, nx), pv)]
        loc = locate(quiet(ocp.sample, chain[0], grid='gist')[1], opti, pts)
        xv = np.zeros(nx)
        for l, cval in zip(loc, rec['coef']): xv[l[0]] = fl(cval) / l[1]
        g, lbg, ubg = [np.array(ca.Function('g', [vx, vp], [e])(xv, pv)).reshape(-1) for e in (opti.g, opti.lbg, opti.ubg)]
        feas = bool(np.all(g >= lbg - 1e-9) and np.all(g <= ubg + 1e-9))
        out.append(('C17.c:grouped:' + name, 'ok' if feas == expect else 'mismatch',
                    'bounds [%g, %g], point values in [%g, %g]: grouped rows %s' % (lb, ub, lo, hi, 'hold' if feas else 'violated')))
    return out


def optima():
    """C17.d (solver relation, not a TLC statement): on chain problems both parametrisations can represent,
    SplineMethod and MultipleShooting reach the same optimal trajectories."""
    from rockit import MultipleShooting
    out = []
    for L, N in ((3, 6), (2, 5), (3, 4)):
        sols = {}
        for name in ('spline', 'ms'):
            ocp = Ocp(t0=0, T=2)
            xs = [ocp.state() for _ in range(L - 1)]
            u = ocp.control()
            chain = xs + [u]
            for i in range(L - 1): ocp.set_der(xs[i], chain[i + 1])
            ocp.subject_to(ocp.at_t0(xs[0]) == 0)
            ocp.subject_to(ocp.at_tf(xs[0]) == 1)
            if L == 3:
                ocp.subject_to(ocp.at_t0(xs[1]) == 0); ocp.subject_to(ocp.at_tf(xs[1]) == 0)
            ocp.subject_to(-3 <= (u <= 3))
            ocp.add_objective(ocp.sum(u ** 2))
            ocp.solver('ipopt', {"print_time": False, "ipopt": {"print_level": 0, "sb": "yes", "tol": 1e-10}})
            ocp.method(SplineMethod(N=N) if name == 'spline' else MultipleShooting(N=N, intg='rk'))
            sol = quiet(ocp.solve)
            sols[name] = np.array(sol.sample(xs[0], grid='control')[1]).reshape(-1)
        ok = np.allclose(sols['spline'], sols['ms'], atol=1e-5)
        out.append(('C17.d:optima:L%dN%d' % (L, N), 'ok' if ok else 'mismatch', 'spline %s vs shooting %s' % (np.round(sols['spline'], 6).tolist(), np.round(sols['ms'], 6).tolist())))
    return out


def saveload():
    """C18 for SplineMethod: save after a solve, load, solve the loaded problem: same trajectory; the original still solves."""
    import tempfile, os
    out = []
    try:
        ocp = Ocp(t0=0, T=2)
        p = ocp.state(); v = ocp.state(); a = ocp.control()
        ocp.set_der(p, v); ocp.set_der(v, a)
        ocp.subject_to(ocp.at_t0(p) == 0); ocp.subject_to(ocp.at_tf(p) == 1)
        ocp.subject_to(ocp.at_t0(v) == 0); ocp.subject_to(ocp.at_tf(v) == 0)
        ocp.add_objective(ocp.sum(a ** 2))
        ocp.solver('ipopt', {"print_time": False, "ipopt": {"print_level": 0, "sb": "yes"}})
        ocp.method(SplineMethod(N=5))
        s1 = np.array(quiet(ocp.solve).sample(p, grid='control')[1]).reshape(-1)
        fd, fn = tempfile.mkstemp(suffix='.rockit'); os.close(fd)
        try:
            quiet(ocp.save, fn)
            o2 = quiet(Ocp.load, fn)
        finally:
            os.unlink(fn)
        s2 = np.array(quiet(o2.solve).sample(o2.states[0], grid='control')[1]).reshape(-1)
        s3 = np.array(quiet(ocp.solve).sample(p, grid='control')[1]).reshape(-1)
        ok = np.allclose(s1, s2, atol=1e-6) and np.allclose(s1, s3, atol=1e-6)
        out.append(('C18.a:spline', 'ok' if ok else 'mismatch', 'original %s loaded %s original again %s' % (s1.round(5).tolist(), s2.round(5).tolist(), s3.round(5).tolist())))
    except Exception as e:
        out.append(('C18.a:spline', 'error', '%s: %s' % (type(e).__name__, (str(e).splitlines() or [''])[-1][:200])))
    return out
