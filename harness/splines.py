"""C17 conformance: B-spline helper functions and grid='bspline' signals against BSplines.tla."""
import traceback
from fractions import Fraction as Fr
import numpy as np
import casadi as ca
import build as _b
from rockit import Ocp, MultipleShooting, SingleShooting, DirectCollocation
from rockit.sampling_method import FunctionGrid
from rockit.splines.micro_spline import eval_on_knots, bspline_derivative, get_greville_points
from replay_nlp import close, isbad, seq_compare
from observe import quiet, locate

fl = lambda a: float(Fr(a[0], a[1]))


def mat_cmp(obs, pred, what):
    obs = np.array(obs)
    if obs.shape != (len(pred), len(pred[0]) if pred else 0):
        return 'mismatch', '%s shape %s expected %s' % (what, obs.shape, (len(pred), len(pred[0]) if pred else 0))
    inc = False
    for i, row in enumerate(pred):
        for j, p in enumerate(row):
            if isbad(p): inc = True; continue
            if not close(float(obs[i, j]), p) and not abs(float(obs[i, j]) - fl(p)) <= 5e-16 * 8:
                return 'mismatch', '%s[%d,%d] obs=%r pred=%s' % (what, i, j, float(obs[i, j]), Fr(*p))
    return ('inconclusive', '') if inc else ('ok', '')


def helpers(rec):
    sc = rec['sc']; d = sc['d']; sub = sc['sub']
    xi = ca.DM([fl(v) for v in rec['xi']]).T
    res = []
    k, B = eval_on_knots(xi, d, subsamples=sub)
    res.append(('C17.a:points',) + seq_compare(list(np.array(k).reshape(-1)), rec['points']))
    res.append(('C17.a:basis',) + mat_cmp(np.array(ca.DM(B)).T, rec['basis'], 'eval_on_knots basis'))
    # the same points through an explicit sub-grid, without the breakpoints
    if sub > 0:
        tau = [(s + 1.0) / (sub + 1) for s in range(sub)]
        k2, B2 = eval_on_knots(xi, d, subgrid=tau, include_edges=False)
        N = sc['N']
        idx = [j for j in range(len(rec['points'])) if j % (sub + 1) != 0]
        res.append(('C17.a:subgrid',) + mat_cmp(np.array(ca.DM(B2)).T, [rec['basis'][j] for j in idx], 'eval_on_knots(subgrid) basis'))
    c = ca.DM([fl(v) for v in rec['coef']]).T
    res.append(('C17.a:values',) + seq_compare(list(np.array(ca.DM(c @ B)).reshape(-1)), rec['values']))
    if d >= 1:
        dc = bspline_derivative(c, xi, d)
        res.append(('C17.a:derivative',) + seq_compare(list(np.array(ca.DM(dc)).reshape(-1)), rec['dcoef']))
    g = get_greville_points(xi, d)
    res.append(('C17.a:greville',) + seq_compare(list(np.array(ca.DM(g)).reshape(-1)), rec['greville']))
    return res


def _inputs(ocp):
    opti = ocp._method.opti; adv = opti.advanced
    syms = adv.symvar()
    vs = [s for s in syms if adv.get_meta(s).type == ca.OPTI_VAR]
    ps = [s for s in syms if adv.get_meta(s).type == ca.OPTI_PAR]
    vx = ca.veccat(*vs); vp = ca.veccat(*ps) if ps else ca.MX(0, 1)
    opti._vx = vx; opti._vp = vp
    return opti, vx, vp


def signals(rec):
    """variable(grid='bspline', order=d) inside an OCP: samples at any refinement equal the Cox - de Boor
    evaluation of the coefficients reported on the 'gist' grid; der() is the analytic derivative in physical time;
    a grid='bspline' parameter entering the ODE is routed to the right interval."""
    sc = rec['sc']; d = sc['d']; sub = sc['sub']; N = sc['N']
    res = []
    nodes = [fl(v) for v in rec['xi']]
    T = 2.0
    bp = [j for j in range(len(rec['points'])) if j % (sub + 1) == 0]
    # the same sample points through every split of the subdivision into M integrator steps x refine
    splits = [(M, (sub + 1) // M) for M in range(1, sub + 2) if (sub + 1) % M == 0]
    for meth, M, R in [(m_, M_, R_) for m_ in (MultipleShooting, DirectCollocation) for (M_, R_) in splits]:
        for with_der in ((False, True) if d >= 1 else (False,)):
            tag = meth.__name__[:2] + ('' if M == 1 else ':M%dr%d' % (M, R))
            try:
                ocp = Ocp(t0=0.5, T=T)
                x = ocp.state(); u = ocp.control()
                v = ocp.variable(grid='bspline', order=d)
                ocp.set_der(x, u)
                dvs = ocp.der(v) if with_der else None      # requested before the first transcription
                ddvs = ocp.der(dvs) if with_der and d >= 2 else None
                mixed = ocp.der((x + v) * ocp.t) if with_der else None     # explicit time and a signal in one expression
                # a second signal, declared later; its derivative is requested first; both orders of appearance in one expression
                w2 = ocp.variable(grid='bspline', order=d) if with_der else None
                if with_der:
                    dw2 = ocp.der(w2)
                    two_a = ocp.der(w2 * ocp.t + v); two_b = ocp.der(v * ocp.t + 3 * w2)
                ocp.add_objective(ocp.integral(u ** 2 + v ** 2))
                ocp.subject_to(v <= 100)
                ocp.solver('ipopt')
                kw = dict(N=N, M=M, grid=FunctionGrid(lambda n: list(nodes)))
                ocp.method(meth(intg='rk', **kw) if meth is MultipleShooting else meth(**kw))
                quiet(lambda: ocp._transcribed)
                opti, vx, vp = _inputs(ocp)
                nx = vx.numel(); pv = np.zeros(vp.numel())
                rng = np.random.RandomState(3)
                pts = [(rng.uniform(0.5, 1.5, nx), pv), (rng.uniform(-1.5, -0.5, nx), pv)]
                try:
                    g_ = quiet(ocp.sample, v, grid='gist')
                except TypeError:
                    g_ = None
                # the 'gist' grid is only defined by SplineMethod; otherwise take the coefficient matrix of the signal
                C = g_[1] if g_ is not None else ocp._method.signals[v].coeff
                loc = locate(C, opti, pts)
                if len(loc) != N + d or any(l is None for l in loc):
                    res.append(('C17.b:gist:' + tag, 'mismatch', 'gist grid reports %d entries, expected %d coefficient variables' % (len(loc), N + d))); continue
                xv = np.zeros(nx)
                for l, cval in zip(loc, rec['coef']): xv[l[0]] = fl(cval) / l[1]
                ev = lambda e: np.array(ca.Function('f', [vx, vp], [e])(xv, pv)).reshape(-1)
                if not with_der:
                    _, vs = quiet(ocp.sample, v, grid='control')
                    res.append(('C17.b:control:' + tag,) + seq_compare(list(ev(vs)), [rec['values'][j] for j in bp]))
                    ts, vr = quiet(ocp.sample, v, grid='integrator', refine=R)
                    res.append(('C17.b:refined:' + tag,) + seq_compare(list(ev(vr)), rec['values']))
                    tt = ev(ts)
                    okt = len(tt) == len(rec['points']) and all(abs(a - (0.5 + T * fl(p))) < 1e-9 for a, p in zip(tt, rec['points']))
                    res.append(('C17.b:refined_t:' + tag, 'ok' if okt else 'mismatch', 'times %s' % list(tt)[:6]))
                else:
                    _, dv = quiet(ocp.sample, dvs, grid='integrator', refine=R)
                    got = list(ev(dv) * T)      # derivative in physical time = derivative in normalised time / T
                    res.append(('C17.b:der:' + tag,) + seq_compare(got, rec['dvalues']))
                    if ddvs is not None:
                        _, ddv = quiet(ocp.sample, ddvs, grid='integrator', refine=R)
                        res.append(('C17.b:der2:' + tag,) + seq_compare(list(ev(ddv) * T * T), rec['ddvalues']))
                    # two signals: w2 = v / 2 at this probe
                    locw = locate(ocp._method.signals[w2].coeff, opti, pts)
                    if len(locw) == N + d and all(l is not None for l in locw):
                        xv2 = xv.copy()
                        for l, cval in zip(locw, rec['coef']): xv2[l[0]] = 0.5 * fl(cval) / l[1]
                        ev2 = lambda e: np.array(ca.Function('f', [vx, vp], [e])(xv2, pv)).reshape(-1)
                        tk2, va = quiet(ocp.sample, two_a, grid='control'); _, vb = quiet(ocp.sample, two_b, grid='control')
                        tkv2 = ev2(tk2); ga = ev2(va); gb = ev2(vb)
                        vv = [fl(rec['values'][j]) for j in bp]; dv_ = [fl(rec['dvalues'][j]) / T for j in bp]
                        wa = [0.5 * dv_[i] * tkv2[i] + 0.5 * vv[i] + dv_[i] for i in range(len(bp))]           # (w t + v)' = w' t + w + v'
                        wb = [dv_[i] * tkv2[i] + vv[i] + 1.5 * dv_[i] for i in range(len(bp))]                   # (v t + 3 w)' = v' t + v + 3 w'
                        for nm, got_, want_ in (('a', ga, wa), ('b', gb, wb)):
                            ok2 = len(got_) == len(want_) and all(abs(a_ - b_) <= 1e-9 * max(1, abs(b_)) for a_, b_ in zip(got_, want_))
                            res.append(('C16.a:der_two_signals:%s:%s' % (nm, tag), 'ok' if ok2 else 'mismatch', 'sampled %s expected %s' % (list(np.round(got_, 6))[:4], list(np.round(want_, 6))[:4])))
                    # d/dt[(x+v) t] = (x' + v') t + (x + v); at this probe x = u = 0, so it is v'(t) t + v(t)
                    tk, mv = quiet(ocp.sample, mixed, grid='control')
                    tkv = ev(tk); got = ev(mv)
                    want = [fl(rec['dvalues'][j]) / T * tkv[i] + fl(rec['values'][j]) for i, j in enumerate(bp)]
                    okm = len(got) == len(want) and all(abs(a - b_) <= 1e-9 * max(1, abs(b_)) for a, b_ in zip(got, want))
                    res.append(('C16.a:der_time_signal:' + tag, 'ok' if okm else 'mismatch', 'der((x+v)*t) sampled %s expected %s' % (list(got)[:4], want[:4])))
            except Exception as e:
                res.append(('C17.b:%s:%s' % ('der' if with_der else 'signal', tag), 'error', '%s: %s' % (type(e).__name__, (str(e).splitlines() or [''])[-1][:160])))
    # a B-spline parameter *and* a B-spline variable in the ODE under DirectCollocation with M = 3: the collocation rows see
    # the parameter at every collocation time (at this probe all states, controls and the variable's coefficients are zero)
    try:
        ocp = Ocp(t0=0.5, T=T)
        x = ocp.state(); u = ocp.control(); w = ocp.variable()
        vb = ocp.variable(grid='bspline', order=max(d, 1))       # the variable is declared before the parameter
        p = ocp.parameter(grid='bspline', order=d)
        ocp.set_der(x, u + p + 2 * w + vb)
        # a rate limit on the variable: its derivative signal joins the family of signals
        ocp.subject_to(ocp.der(vb) <= 1000)
        ocp.add_objective(ocp.integral(u ** 2) + w ** 2 + ocp.integral(vb ** 2, grid='control'))
        ocp.set_value(p, ca.DM([fl(c) for c in rec['coef']]).T)
        ocp.solver('ipopt')
        ocp.method(DirectCollocation(N=N, M=3, degree=2, scheme='radau', grid=FunctionGrid(lambda n: list(nodes))))
        quiet(lambda: ocp._transcribed)
        opti, vx, vp = _inputs(ocp)
        pvv = np.array(opti.debug.value(vp, opti.initial())).reshape(-1)
        wloc = locate(quiet(ocp.value, w), opti, [(np.ones(vx.numel()), pvv), (-np.ones(vx.numel()), pvv)])[0]
        xv = np.zeros(vx.numel()); xv[wloc[0]] = 0.75 / wloc[1]
        g = np.array(ca.Function('g', [vx, vp], [opti.g])(xv, pvv)).reshape(-1)
        lb = np.array(ca.Function('g', [vx, vp], [opti.lbg])(xv, pvv)).reshape(-1)
        ub = np.array(ca.Function('g', [vx, vp], [opti.ubg])(xv, pvv)).reshape(-1)
        got = sorted(abs(v) for v, l_, u_ in zip(g - lb, lb, ub) if l_ == u_ and abs(v) > 1e-12)      # equality rows: the dynamics
        if any(isbad(cv) for row in rec['colvals'] for cv in row): res.append(('C17.b:ode_param_dc', 'inconclusive', ''))
        else:
            want = sorted(abs(fl(cv) + 1.5) for row in rec['colvals'] for cv in row if abs(fl(cv) + 1.5) > 1e-12)
            okg = len(got) == len(want) and all(abs(a - b_) <= 1e-9 * max(1, abs(b_)) for a, b_ in zip(got, want))
            res.append(('C17.b:ode_param_dc', 'ok' if okg else 'mismatch', 'collocation residuals %s expected %s' % (np.round(got, 6).tolist()[:8], np.round(want, 6).tolist()[:8])))
    except Exception as e:
        res.append(('C17.b:ode_param_dc', 'error', '%s: %s' % (type(e).__name__, (str(e).splitlines() or [''])[-1][:160])))
    # ocp.integral of an integrand that mentions a B-spline signal only (no state, no time) under DirectCollocation: the collocation
    # quadrature of the stage, not a left sum (C05)
    try:
        ocp = Ocp(t0=0.5, T=T)
        x = ocp.state(); u = ocp.control(); ocp.set_der(x, u)
        v = ocp.variable(grid='bspline', order=d)
        ocp.add_objective(ocp.integral(v ** 2)); ocp.subject_to(ocp.at_t0(x) == 0)
        ocp.solver('ipopt')
        ocp.method(DirectCollocation(N=N, M=1, degree=2, scheme='radau', grid=FunctionGrid(lambda n: list(nodes))))
        quiet(lambda: ocp._transcribed)
        opti, vx, vp = _inputs(ocp)
        nx = vx.numel(); pv = np.zeros(vp.numel())
        rng = np.random.RandomState(3)
        pts = [(rng.uniform(0.5, 1.5, nx), pv), (rng.uniform(-1.5, -0.5, nx), pv)]
        loc = locate(ocp._method.signals[v].coeff, opti, pts)
        xv = np.zeros(nx)
        for l, cval in zip(loc, rec['coef']): xv[l[0]] = fl(cval) / l[1]
        fobs = float(ca.Function('f', [vx, vp], [opti.f])(xv, pv))
        if isbad(rec['quad2']): res.append(('C05.s:integral_signal', 'inconclusive', ''))
        else:
            want = T * fl(rec['quad2'])
            res.append(('C05.s:integral_signal', 'ok' if abs(fobs - want) <= 1e-9 * max(1, abs(want)) else 'mismatch', 'objective %r, collocation quadrature of the signal %r' % (fobs, want)))
    except Exception as e:
        res.append(('C05.s:integral_signal', 'error', '%s: %s' % (type(e).__name__, (str(e).splitlines() or [''])[-1][:160])))
    # a bspline *parameter* in the ODE next to a global variable: explicit Euler gap rows
    try:
        ocp = Ocp(t0=0.5, T=T)
        x = ocp.state(); u = ocp.control(); w = ocp.variable()
        p = ocp.parameter(grid='bspline', order=d)
        ocp.set_der(x, u + p + 2 * w)
        ocp.add_objective(ocp.integral(u ** 2) + w ** 2)
        ocp.set_value(p, ca.DM([fl(c) for c in rec['coef']]).T)
        ocp.solver('ipopt')
        ocp.method(MultipleShooting(N=N, M=1, intg='expl_euler', grid=FunctionGrid(lambda n: list(nodes))))
        quiet(lambda: ocp._transcribed)
        opti, vx, vp = _inputs(ocp)
        pvv = np.array(opti.debug.value(vp, opti.initial())).reshape(-1)
        wloc = locate(quiet(ocp.value, w), opti, [(np.ones(vx.numel()), pvv), (-np.ones(vx.numel()), pvv)])[0]
        xv = np.zeros(vx.numel()); xv[wloc[0]] = 0.75 / wloc[1]
        g = np.array(ca.Function('g', [vx, vp], [opti.g])(xv, pvv)).reshape(-1)
        lb = np.array(ca.Function('g', [vx, vp], [opti.lbg])(xv, pvv)).reshape(-1)
        gaps = sorted(abs(v) for v in (g - lb))[:]
        want = sorted(abs(T * (nodes[k + 1] - nodes[k]) * (fl(rec['values'][bp[k]]) + 1.5)) for k in range(N))
        okg = len(gaps) == len(want) and all(abs(a - b_) <= 1e-9 * max(1, abs(b_)) for a, b_ in zip(gaps, want))
        res.append(('C17.b:ode_param', 'ok' if okg else 'mismatch', 'gap residuals %s expected %s' % (gaps, want)))
    except Exception as e:
        res.append(('C17.b:ode_param', 'error', '%s: %s' % (type(e).__name__, (str(e).splitlines() or [''])[-1][:160])))
    return res


def replay(rec):
    out = []
    for fn, tag in ((helpers, 'C17.a'), (signals, 'C17.b')):
        try:
            out.extend(fn(rec))
        except Exception as e:
            out.append((tag, 'error', '%s: %s' % (type(e).__name__, (str(e).splitlines() or [''])[-1][:200])))
    return {'results': out, 'error': None}
