"""C12 conformance: multi-stage OCPs (direct and cloned stages, coupling constraints) against
Stages!MultiPredict.  Rows of stage s are recognised by the ingredients they touch; stage-level
constraints carry the same cid in every stage, so they are compared per (stage, cid)."""
import traceback
from fractions import Fraction as Fr
import numpy as np
import casadi as ca
from build import build_multi, declare_constraint, mx, fl, pval
from observe import observe, set_x, slacks_by_cid, quiet, transcribe
from replay_nlp import bag_compare, bag_compare_optional, close, isbad, start_compare

DYN = {'x', 'xi', 'xr', 'zr'}


def assign_stage(si, decl, probe, o):
    pre = '%d:' % (si + 1)
    m = decl['method']; N = m['N']
    a = {}
    for k in range(N + 1):
        for i in range(len(decl['states'])):
            key = (pre + 'x', i, k)
            if o.ing.get(key) is not None: a[key] = fl(probe['X'][k][i])
    for k in range(N):
        for i in range(len(decl['controls'])): a[(pre + 'u', i, k)] = fl(probe['U'][k][i])
    for i, v in enumerate(decl['vars']):
        for c, val in enumerate(probe['V'][i]): a[(pre + 'v', i, c)] = fl(val)
    if m['kind'] == 'DC':
        M = m['M']; deg = m['degree']
        for k in range(N):
            for l in range(M):
                for i in range(len(decl['states'])):
                    if l >= 1: a[(pre + 'xi', i, k * M + l)] = fl(probe['XI'][k][l][i])
                    for j in range(deg): a[(pre + 'xr', i, (k * M + l) * deg + j)] = fl(probe['XR'][k][l][j][i])
    if decl['T']['kind'] == 'free': a[(pre + 'T', 0, 0)] = fl(probe['T'])
    if decl['t0']['kind'] == 'free': a[(pre + 't0', 0, 0)] = fl(probe['t0'])
    return a


def declared_counts(B):
    """What the user declared, per stage (and for a template): must not change by transcription."""
    out = []
    objs = [p.stage for p in B.parts] + ([B.template] if hasattr(B, 'template') else []) + [B.ocp]
    for st in objs:
        out.append((len(st.states), len(st.qstates), len(st.controls), sum(len(v) for v in st.variables.values()),
                    sum(len(v) for v in st.parameters.values()), sum(len(v) for v in st._constraints.values())))
    return out


def replay(rec):
    md, final, probes, pred = rec['decl'], rec['final'], rec['probes'], rec['pred']
    res = []
    try:
        B = build_multi(md)
        before = declared_counts(B)
        if md.get('reset'):
            # history: transcribe, then change the value of stage 1's first parameter and add a constraint to stage 1
            transcribe(B)
            p1 = B.parts[0]
            for j_, pr_ in enumerate(final['stages'][0]['params']):
                quiet(p1.stage.set_value, p1.p[j_], pval(pr_, final['stages'][0]['method']['N']))
            if not md.get('valonly'):
                quiet(declare_constraint, p1, final['stages'][0]['cons'][-1], p1.stage)
                p1.decl = final['stages'][0]        # (integrands are looked up in the declaration)
                quiet(p1.stage.add_objective, mx(p1, final['stages'][0]['obj'][-2], p1.stage))
                quiet(p1.stage.add_objective, mx(p1, final['stages'][0]['obj'][-1], p1.stage))
                quiet(p1.stage.set_der, p1.x[0], mx(p1, final['stages'][0]['rhs'][0], p1.stage))
            before = declared_counts(B)
        if md.get('stagefirst'):
            # the first transcribing call is made on a sub-stage, not on the OCP
            p_last = B.parts[-1]
            quiet(p_last.stage.sample, p_last.x[0], grid='control')
        o = observe(B)
        after = declared_counts(B)
    except Exception as e:
        return {'results': [('C12.build', 'error', '%s: %s' % (type(e).__name__, (str(e).splitlines() or [''])[-1][:200]))],
                'error': traceback.format_exc()}
    res.append(('C12.f:untouched', 'ok' if before == after else 'mismatch', 'declared counts before %s after %s' % (before, after)))
    if hasattr(B, 'template'):
        # a clone carries everything its template declares (states, quadrature states, controls, variables, parameters, constraints)
        # (constraints may be added to a clone afterwards -- coupling constraints declared on a stage -- so a clone has at least the template's)
        nparts = len(B.parts); tc = before[nparts]
        bad = [i + 1 for i in range(nparts) if before[i][:5] != tc[:5] or before[i][5] < tc[5]]
        res.append(('C12.f:clone_content', 'ok' if not bad else 'mismatch', 'template declares %s (states, quadrature states, controls, variables, parameters, constraints); clones %s declare %s' % (tc, bad, [before[i - 1] for i in bad])))
    assign = {}
    for si, (d, pr) in enumerate(zip(final['stages'], probes)):
        assign.update(assign_stage(si, d, pr, o))
    if md.get('pown'):
        import casadi as _ca
        from observe import locate
        wl = locate(quiet(B.ocp.value, B.ocp._verif_pw), o.opti, o.pts)[0]
        if wl is None: res.append(('C12.a:parentvar', 'mismatch', 'the parent variable is not a decision variable of the NLP'))
        else:
            o.ing[('0:w', 0, 0)] = wl; o.owner.setdefault(wl[0], ('0:w', 0, 0)); assign[('0:w', 0, 0)] = fl(probes[0]['pw'])
    xv, missing = set_x(o, assign)
    if missing: res.append(('C12.varmap', 'mismatch', 'not decision variables: %s' % missing[:6]))
    f, by_cid, recs = slacks_by_cid(o, xv)
    # ---- stage-level rows: group by (stage owning the row, cid)
    def stage_of(r):
        ss = {c.split(':')[0] for c in r['classes'] if ':' in c}
        return ss
    pc_ids0 = {pc['cid'] for pc in pred['pcons']}
    for si, (d, ps) in enumerate(zip(final['stages'], pred['stages'])):
        tag = '%d' % (si + 1)
        mine = [r for r in recs if stage_of(r) == {tag}]
        dyn = [abs(r['vals'][0]) for r in mine if r['cid'] is None and r['kind'] == 'eq' and DYN & set(r['kinds'])]
        pg = [v for gk in ps['gaps'] for v in gk]
        st, det = bag_compare(dyn, pg, absval=True)
        res.append(('C12.a:dyn', st, 'stage %s: %s' % (tag, det[:200])))
        for pc in ps['cons']:
            rows = [r for r in mine if r['cid'] == pc['cid']]
            iseq = pc['rel'] == 'eq'
            got = [abs(v) if iseq else v for r in rows for v in r['vals']]
            req = [s for inst in pc['inst'] if not inst['const'] for s in inst['s']]
            opt = [inst['s'] for inst in pc['inst'] if inst['const']]
            st, det = bag_compare_optional(got, req, opt, absval=iseq)
            res.append(('C12.a:rows:' + pc['cid'], st, 'stage %s: %s' % (tag, det[:200])))
        # rows of this stage that are neither dynamics nor a declared constraint nor pure horizon/grid rows
        known = {pc['cid'] for pc in ps['cons']}
        for r in mine:
            if r['cid'] is None and not (r['kind'] == 'eq' and DYN & set(r['kinds'])):
                if set(r['kinds']) - {'T', 't0', 'tn', 'Tl'}:
                    res.append(('C12.a:extra', 'mismatch', 'stage %s: unexplained row deps=%s' % (tag, r['classes'])))
            elif r['cid'] is not None and r['cid'] not in known and r['cid'] not in pc_ids0:
                res.append(('C12.a:extra', 'mismatch', 'stage %s: rows tagged %r not declared there' % (tag, r['cid'])))
        # T >= 0 of this stage
        if ps['tpos']['present'] and not isbad(ps['tpos']['slack']):
            hit = [r for r in mine if r['cid'] is None and r['kind'] == 'ineq' and r['kinds'] == ['T'] and len(r['vals']) == 1
                   and close(r['vals'][0], ps['tpos']['slack'])]
            res.append(('C12.b:tpos', 'ok' if hit else 'mismatch', 'stage %s: no row T>=0' % tag))
    # ---- rows that couple stages: only the declared parent constraints may do that
    pc_ids = {pc['cid'] for pc in pred['pcons']}
    for r in recs:
        if len(stage_of(r)) > 1 and r['cid'] not in pc_ids:
            res.append(('C12.a:interference', 'mismatch', 'row %d couples stages %s without being a parent constraint (cid=%s)' % (r['row'], sorted(stage_of(r)), r['cid'])))
    for pc in pred['pcons']:
        rows = [r for r in recs if r['cid'] == pc['cid']]
        iseq = pc['rel'] == 'eq'
        got = [abs(v) if iseq else v for r in rows for v in r['vals']]
        st, det = bag_compare_optional(got, [] if pc['const'] else [pc['s']], [[pc['s']]] if pc['const'] else [], absval=iseq)
        res.append(('C12.a:parent:' + pc['cid'], st, det[:200]))
    # ---- numeric read-back through sol(stage): every stage answers with its own times and values, whatever was asked before (C07)
    try:
        from rockit.solution import OcpSolution
        from replay_nlp import FakeSol
        sol = OcpSolution(FakeSol(o, xv), B.ocp)
        for grid in ('control', 'integrator'):
            for si, p_ in enumerate(B.parts):
                ts_s, xs_s = quiet(p_.stage.sample, p_.x[0], grid=grid)
                want_t = np.array(ca.Function('t', [o.vx, o.vp], [ts_s])(xv, o.pvec)).reshape(-1)
                want_x = np.array(ca.Function('x', [o.vx, o.vp], [xs_s])(xv, o.pvec)).reshape(-1)
                tt, xx = quiet(sol(p_.stage).sample, p_.x[0], grid=grid)
                okr = np.array(tt).reshape(-1).shape == want_t.shape and np.allclose(np.array(tt).reshape(-1), want_t, rtol=1e-10, atol=1e-10) and np.allclose(np.array(xx).reshape(-1), want_x, rtol=1e-10, atol=1e-10)
                res.append(('C07.c:multi:%s' % grid, 'ok' if okr else 'mismatch', 'stage %d: sol(stage).sample gives times %s, the stage grid is %s' % (si + 1, np.round(np.array(tt).reshape(-1), 6).tolist(), np.round(want_t, 6).tolist())))
    except Exception as e:
        res.append(('C07.c:multi', 'error', '%s: %s' % (type(e).__name__, (str(e).splitlines() or [''])[-1][:200])))
    # ---- no decision variable that belongs to no stage and is not the parent's own (stages without algebraic variables)
    if not any(d['algs'] for d in final['stages']):
        unowned = o.nx - len(o.owner)
        res.append(('C12.a:vars', 'ok' if unowned == 0 else 'mismatch', '%d NLP decision variables correspond to no declared quantity of any stage' % unowned))
    # ---- objective = sum over stages + parent terms
    if isbad(pred['f']): res.append(('C12.c:f', 'inconclusive', ''))
    else: res.append(('C12.c:f', 'ok' if close(f, pred['f']) else 'mismatch', 'obs=%r pred=%s' % (f, Fr(*pred['f']))))
    # ---- parameters after the history (C12.h): values of stage 1's first parameter seen by the NLP
    if md.get('reset'):
        p1 = B.parts[0]
        try:
            kind = final['stages'][0]['params'][0]['kind']
            if kind == 'g':
                pv_ = np.array(ca.Function('p', [o.vx, o.vp], [quiet(p1.stage.value, p1.p[0])])(xv, o.pvec)).reshape(-1)
                want = [final['stages'][0]['params'][0]['val'][0]]
            else:
                pv_ = np.array(ca.Function('p', [o.vx, o.vp], [quiet(p1.stage.sample, p1.p[0], grid='control')[1]])(xv, o.pvec)).reshape(-1)
                vals = final['stages'][0]['params'][0]['val']
                want = list(vals) if kind == 'cp' else list(vals) + [vals[-1]]
            okp = len(pv_) == len(want) and all(close(float(a), w) for a, w in zip(pv_, want))
            res.append(('C12.h:param', 'ok' if okp else 'mismatch', 'parameter of stage 1 seen by the NLP %s, last set_value %s' % (list(pv_), [str(Fr(*w)) for w in want])))
        except Exception as e:
            res.append(('C12.h:param', 'error', '%s: %s' % (type(e).__name__, (str(e).splitlines() or [''])[-1][:200])))
    return {'results': res, 'error': None}


def nested_saveload():
    """C18 on a problem with a stage inside a stage: saved after a solve and after the top-level method was exchanged; the
    loaded problem must be the same NLP (objective, rows, bounds at random points; parameters; start) as the original."""
    import os, tempfile
    import casadi as ca
    from rockit import Ocp, MultipleShooting, DirectCollocation, FreeTime
    res = []
    for newm in (lambda: MultipleShooting(N=3, intg='rk'), lambda: DirectCollocation(N=2, degree=2)):
        def mk():
            ocp = Ocp(t0=0, T=FreeTime(1.0))
            p = ocp.parameter(); x = ocp.state(); u = ocp.control()
            ocp.set_der(x, -p * x + u); ocp.subject_to(ocp.at_t0(x) == 1); ocp.subject_to(-1 <= (u <= 1)); ocp.subject_to(ocp.at_tf(x) == 0.2)
            ocp.add_objective(ocp.T + ocp.integral(u ** 2)); ocp.set_value(p, 1.3); ocp.set_initial(u, 0.2)
            ocp.method(MultipleShooting(N=4, M=2, intg='rk')); ocp.solver('ipopt', {"ipopt.print_level": 0, "print_time": False, "ipopt.sb": "yes"})
            s1 = ocp.stage(t0=FreeTime(0), T=FreeTime(1))
            y = s1.state(); r = s1.parameter()
            s1.set_der(y, -r * y); s1.subject_to(s1.at_t0(y) == 1); s1.subject_to(s1.T >= 0.5); s1.add_objective(s1.at_tf(y) ** 2 + s1.T)
            s1.set_value(r, 0.7); s1.method(MultipleShooting(N=3, intg='rk')); ocp.subject_to(s1.t0 == ocp.tf)
            s2 = s1.stage(t0=0, T=1)
            w = s2.state(); v = s2.control()
            s2.set_der(w, -2 * w + v); s2.subject_to(s2.at_t0(w) == 1); s2.subject_to(-0.5 <= (v <= 0.5))
            s2.add_objective(s2.at_tf(w) ** 2 + s2.integral(v ** 2)); s2.set_initial(v, 0.1); s2.method(MultipleShooting(N=2, M=3, intg='rk'))
            return ocp
        def nlp(o):
            quiet(lambda: o._transcribed)
            opti = o._method.opti
            F = ca.Function('F', [opti.x, opti.p], [opti.f, opti.g, opti.lbg, opti.ubg])
            return F, np.array(opti.debug.value(opti.x, opti.initial())).reshape(-1), np.array(opti.debug.value(opti.p, opti.initial())).reshape(-1)
        tag = type(newm()).__name__
        fn = os.path.join(tempfile.gettempdir(), 'vnest_%d.rockit' % os.getpid())
        try:
            ocp = quiet(mk)
            quiet(ocp.solve)
            quiet(ocp.method, newm())
            quiet(ocp.save, fn)
            o2 = quiet(Ocp.load, fn)
            Fa, xa, pa = nlp(ocp); Fb, xb, pb = nlp(o2)
            ok = xa.shape == xb.shape and np.array_equal(pa, pb) and np.allclose(xa, xb)
            rng = np.random.RandomState(1)
            for _ in range(3):
                z = rng.uniform(-1, 2, size=xa.shape)
                for ra, rb in zip(Fa(z, pa), Fb(z, pb)):
                    ok = ok and np.array(ra).shape == np.array(rb).shape and np.allclose(np.array(ra), np.array(rb), rtol=1e-10, atol=1e-10, equal_nan=True)
            ok = ok and len(list(o2.iter_stages(include_self=True))) == 3
            res.append(('C18.a:nested:' + tag, 'ok' if ok else 'mismatch', 'loaded nested problem differs from the saved one'))
        except Exception as e:
            res.append(('C18.a:nested:' + tag, 'error', '%s: %s' % (type(e).__name__, (str(e).splitlines() or [''])[-1][:200])))
        finally:
            if os.path.exists(fn): os.unlink(fn)
    return res


def clone_guess():
    """C12 / C10: a template with a time-dependent guess, cloned twice with different start times.  Every clone starts from the
    guess evaluated on *its own* time grid (the law Nlp!StartOf states for a directly declared stage: clone == direct)."""
    from rockit import Ocp, Stage, MultipleShooting, DirectCollocation
    res = []
    for mk_m, tag in ((lambda: MultipleShooting(N=2, intg='rk'), 'MS'), (lambda: DirectCollocation(N=2, degree=2), 'DC')):
        try:
            t = Stage(t0=7.5, T=2)
            x = t.state(); u = t.control()
            t.set_der(x, u); t.add_objective(t.integral(u ** 2)); t.subject_to(t.at_t0(x) == 0)
            t.set_initial(x, 3 * t.t + 1); t.set_initial(u, t.t - t.t0)
            t.method(mk_m())
            ocp = Ocp()
            s1 = ocp.stage(t, t0=0); s2 = ocp.stage(t, t0=2, T=4)
            ocp.solver('ipopt', {"print_time": False, "ipopt": {"print_level": 0}})
            for st_, t0_, T_ in ((s1, 0.0, 2.0), (s2, 2.0, 4.0)):
                ts, xs = quiet(st_.sample, x, grid='control'); _, us = quiet(st_.sample, u, grid='control-')
                opti = ocp._method.opti
                tv = np.array(opti.debug.value(ts, opti.initial())).reshape(-1)
                xv = np.array(opti.debug.value(xs, opti.initial())).reshape(-1); uv = np.array(opti.debug.value(us, opti.initial())).reshape(-1)
                want_t = [t0_ + T_ * k / 2 for k in range(3)]
                ok = np.allclose(tv, want_t) and np.allclose(xv, [3 * a + 1 for a in want_t]) and np.allclose(uv, [a - t0_ for a in want_t[:-1]])
                res.append(('C12.g:clone_guess:' + tag, 'ok' if ok else 'mismatch', 'clone at t0=%g: times %s, x starts %s, u starts %s' % (t0_, tv.tolist(), xv.tolist(), uv.tolist())))
        except Exception as e:
            res.append(('C12.g:clone_guess:' + tag, 'error', '%s: %s' % (type(e).__name__, (str(e).splitlines() or [''])[-1][:200])))
    return res


def clone_contents():
    """C12: everything a template can carry reaches its clones -- quadrature states, B-spline signals (with derivative signals),
    inf_inert / inf_der symbols, guesses, values.  Two clones of a template against two stages declared directly with the same
    content: the same NLP (f, g, lbg, ubg at random points, starting point, parameter values).  A template with sub-stages of its
    own is either cloned with them or refused -- never cloned without them."""
    import casadi as ca
    from rockit import Ocp, Stage, MultipleShooting, SingleShooting, DirectCollocation
    res = []
    def c_quad(st):
        x = st.state(); u = st.control(); q = st.state(quad=True); p = st.parameter()
        st.set_value(p, 0.7)
        st.set_der(x, -p * x + u + 0.2 * st.t); st.set_der(q, x ** 2 + u ** 2 + st.t)
        st.subject_to(st.at_t0(x) == 1); st.subject_to(-1 <= (u <= 1)); st.subject_to(st.at_tf(q) <= 9)
        st.add_objective(st.at_tf(q)); st.set_initial(u, 0.3 * st.t)
    def c_sigv(st):
        x = st.state(); u = st.control(); v = st.variable(grid='bspline', order=2)
        st.set_der(x, -x + u + v); st.subject_to(st.at_t0(x) == 1); st.add_objective(st.integral(u ** 2 + v ** 2))
        st.subject_to(st.der(v) <= 3); st.subject_to(st.der(st.der(v)) >= -40)
    def c_sigp(st):
        x = st.state(); u = st.control(); r = st.parameter(grid='bspline', order=1)
        st.set_value(r, np.array([1.0, 2.0, 0.5, 4.0]))
        st.set_der(x, -x + u + r); st.subject_to(st.at_t0(x) == 1); st.add_objective(st.integral(u ** 2 + x ** 2))
    def c_sigpd(st):       # derivative signals of a parameter in path constraints
        x = st.state(); u = st.control(); r = st.parameter(grid='bspline', order=2)
        st.set_value(r, np.array([1.0, 2.0, 0.5, 4.0, 3.0]))
        st.set_der(x, -x + u + r); st.subject_to(st.at_t0(x) == 1); st.add_objective(st.integral(u ** 2 + x ** 2))
        st.subject_to(x - st.der(r) <= 10); st.subject_to(x + st.der(st.der(r)) >= -50, include_last=False)
    def c_inf(st):
        x = st.state(); v = st.state(); a = st.control(); p = st.parameter()
        st.set_value(p, 2.0)
        st.set_der(x, v); st.set_der(v, a); st.subject_to(st.at_t0(x) == 1); st.add_objective(st.integral(a ** 2))
        st.subject_to(st.inf_inert(p) * x <= 5, grid='inf'); st.subject_to(st.inf_der(x) <= 3, grid='inf')
    cases = [('quad', c_quad, [('MS', lambda: MultipleShooting(N=3, M=2, intg='rk')), ('SS', lambda: SingleShooting(N=2, intg='expl_euler')), ('DC', lambda: DirectCollocation(N=2, degree=2))]),
             ('bspline-variable', c_sigv, [('MS', lambda: MultipleShooting(N=3, intg='rk')), ('DC', lambda: DirectCollocation(N=3, M=2, degree=2))]),
             ('bspline-parameter', c_sigp, [('MS', lambda: MultipleShooting(N=3, intg='rk')), ('DC', lambda: DirectCollocation(N=3, degree=2))]),
             ('bspline-parameter-der', c_sigpd, [('MS', lambda: MultipleShooting(N=3, M=2, intg='rk')), ('DC', lambda: DirectCollocation(N=3, M=2, degree=2))]),
             ('inf', c_inf, [('DC', lambda: DirectCollocation(N=3, M=2, degree=4))])]
    def nlp(o):
        o.solver('ipopt', {"ipopt.print_level": 0, "print_time": False, "ipopt.sb": "yes"})
        quiet(lambda: o._transcribed)
        opti = o._method.opti
        return ca.Function('F', [opti.x, opti.p], [opti.f, opti.g, opti.lbg, opti.ubg]), np.array(opti.debug.value(opti.x, opti.initial())).reshape(-1), np.array(opti.debug.value(opti.p, opti.initial())).reshape(-1)
    horizons = ((0.0, 1.0), (1.0, 2.5))
    for name, content, methods in cases:
        for tag, mm in methods:
            cl = 'C12.k:clone_contents:%s:%s' % (name, tag)
            try:
                t = Stage(t0=0, T=1); content(t); t.method(mm())
                a = Ocp()
                for t0, T in horizons: a.stage(t, t0=t0, T=T)
                b = Ocp()
                for t0, T in horizons:
                    s = b.stage(t0=t0, T=T); content(s); s.method(mm())
                Fa, xa, pa = nlp(a); Fb, xb, pb = nlp(b)
                ok = xa.shape == xb.shape and pa.shape == pb.shape and np.allclose(pa, pb, rtol=0, atol=1e-12) and np.allclose(xa, xb, rtol=0, atol=1e-12)
                det = '' if ok else 'sizes / parameter values / starting points differ: %s %s vs %s %s' % (xa.shape, pa.shape, xb.shape, pb.shape)
                if ok:
                    rng = np.random.RandomState(5)
                    for _ in range(2):
                        z = rng.uniform(0.2, 1.2, size=xa.shape)
                        for nm, ra, rb in zip(('f', 'g', 'lbg', 'ubg'), Fa(z, pa), Fb(z, pb)):
                            ra, rb = np.array(ra), np.array(rb)
                            if ra.shape != rb.shape: ok = False; det = '%s has %s entries in the cloned and %s in the direct problem' % (nm, ra.shape, rb.shape)
                            elif not np.allclose(ra, rb, rtol=1e-11, atol=1e-11, equal_nan=True): ok = False; det = '%s differs by %g' % (nm, float(np.nanmax(np.abs(ra - rb))))
                res.append((cl, 'ok' if ok else 'mismatch', det))
            except Exception as e:
                res.append((cl, 'mismatch', 'clones of a template with this content cannot be transcribed: %s: %s' % (type(e).__name__, (str(e).splitlines() or [''])[-1][:200])))
    # a template with a sub-stage
    cl = 'C12.k:clone_contents:substage'
    try:
        def outer(st):
            x = st.state(); u = st.control()
            st.set_der(x, u); st.subject_to(st.at_t0(x) == 1); st.add_objective(st.integral(u ** 2)); st.method(MultipleShooting(N=3, intg='rk'))
            s = st.stage(t0=0, T=1); y = s.state(); s.set_der(y, -y); s.subject_to(s.at_t0(y) == 1); s.add_objective(s.at_tf(y) ** 2); s.method(MultipleShooting(N=2, intg='rk'))
        t = Stage(t0=0, T=1); outer(t)
        a = Ocp()
        try:
            for t0, T in horizons: a.stage(t, t0=t0, T=T)
            refused = None
        except Exception as e:
            refused = str(e)
        if refused is not None:
            res.append((cl, 'ok', 'refused: ' + refused[:120]))
        else:
            b = Ocp()
            for t0, T in horizons: outer(b.stage(t0=t0, T=T))
            _, xa, _ = nlp(a); _, xb, _ = nlp(b)
            res.append((cl, 'ok' if xa.shape == xb.shape else 'mismatch', 'clones have %d decision variables, directly declared stages %d' % (xa.size, xb.size)))
    except Exception as e:
        res.append((cl, 'error', '%s: %s' % (type(e).__name__, (str(e).splitlines() or [''])[-1][:200])))
    return res


def builtin_saveload():
    """C18 for configurations outside the exact families: shooting with CasADi's built-in integrators (default options) and
    grids with default bounds under a free horizon.  The loaded problem must be the same NLP as the saved one."""
    import os, tempfile
    import casadi as ca
    from rockit import Ocp, MultipleShooting, SingleShooting, FreeTime, UniformGrid
    from rockit.sampling_method import FunctionGrid, DensityGrid
    from build import NodeFun
    res = []
    tau = ca.MX.sym('tau')
    configs = [('MS-collocation', lambda: MultipleShooting(N=3, M=2, intg='collocation')),
               ('SS-cvodes', lambda: SingleShooting(N=2, intg='cvodes')),
               ('MS-functiongrid', lambda: MultipleShooting(N=3, intg='rk', grid=FunctionGrid(NodeFun([0.0, 0.25, 0.5, 1.0])))),
               ('MS-densitygrid', lambda: MultipleShooting(N=3, intg='rk', grid=DensityGrid(1 + tau)))]
    for tag, mm in configs:
        fn = os.path.join(tempfile.gettempdir(), 'vbi_%d.rockit' % os.getpid())
        try:
            def mk():
                ocp = Ocp(t0=0, T=FreeTime(1.5))
                x = ocp.state(); u = ocp.control(); p = ocp.parameter()
                ocp.set_der(x, -p * x * x + u + 0.3 * ocp.t); ocp.set_value(p, 0.8)
                ocp.add_objective(ocp.T + ocp.integral(u ** 2 + x ** 2)); ocp.subject_to(ocp.at_t0(x) == 1); ocp.subject_to(ocp.at_tf(x) == 0.25); ocp.subject_to(-2 <= (u <= 2))
                ocp.method(mm()); ocp.solver('ipopt', {"ipopt.print_level": 0, "print_time": False, "ipopt.sb": "yes"})
                return ocp
            def nlp(o):
                quiet(lambda: o._transcribed)
                opti = o._method.opti
                return ca.Function('F', [opti.x, opti.p], [opti.f, opti.g, opti.lbg, opti.ubg]), np.array(opti.debug.value(opti.x, opti.initial())).reshape(-1), np.array(opti.debug.value(opti.p, opti.initial())).reshape(-1)
            ocp = quiet(mk)
            quiet(ocp.save, fn); o2 = quiet(Ocp.load, fn)
            Fa, xa, pa = nlp(ocp); Fb, xb, pb = nlp(o2)
            ok = xa.shape == xb.shape and np.array_equal(pa, pb) and np.allclose(xa, xb)
            det = ''
            rng = np.random.RandomState(2)
            for _ in range(2):
                z = rng.uniform(0.2, 1.2, size=xa.shape)
                for nm, ra, rb in zip(('f', 'g', 'lbg', 'ubg'), Fa(z, pa), Fb(z, pb)):
                    ra, rb = np.array(ra), np.array(rb)
                    if ra.shape != rb.shape: ok = False; det = '%s has %s entries in the saved and %s in the loaded problem' % (nm, ra.shape, rb.shape)
                    elif not np.allclose(ra, rb, rtol=1e-10, atol=1e-10, equal_nan=True): ok = False; det = '%s differs by %g' % (nm, float(np.nanmax(np.abs(ra - rb))))
            res.append(('C18.a:builtin:' + tag, 'ok' if ok else 'mismatch', det))
        except Exception as e:
            res.append(('C18.a:builtin:' + tag, 'error', '%s: %s' % (type(e).__name__, (str(e).splitlines() or [''])[-1][:200])))
        finally:
            if os.path.exists(fn): os.unlink(fn)
    return res


def vector_interval_param():
    """C09: a vector-valued per-interval parameter whose value matrix happens to be square (n = N, or n = N+1 with
    include_last): column k is the value on interval k -- seen by sample() and by the dynamics (rows compared with the
    same OCP with the values written in as per-interval constants through a time-indexed lookup)."""
    import casadi as ca
    from rockit import Ocp, MultipleShooting, SingleShooting
    res = []
    for tag, mk_m in (('MS', lambda: MultipleShooting(N=2, intg='rk')), ('SS', lambda: SingleShooting(N=2, intg='rk'))):
        for plus in (False, True):
            try:
                n = 3 if plus else 2
                ocp = Ocp(T=2)
                x = ocp.state(n); u = ocp.control()
                p = ocp.parameter(n, grid='control', include_last=plus)
                ocp.set_der(x, p * u - x)
                ocp.add_objective(ocp.at_tf(ca.sumsqr(x)) + ocp.integral(u ** 2)); ocp.subject_to(ocp.at_t0(x) == 1)
                V = np.arange(1, n * n + 1, dtype=float).reshape(n, n) * np.array([[1, -1, 2][:n]])     # not symmetric
                ocp.set_value(p, ca.DM(V))
                ocp.method(mk_m()); ocp.solver('ipopt', {"print_time": False, "ipopt": {"print_level": 0}})
                _, ps = quiet(ocp.sample, p, grid='control')
                opti = ocp._method.opti
                got = np.array(opti.debug.value(ps, opti.initial()))
                got = got.T if got.shape[0] == n and got.shape[1] != n else got          # rows = time points
                got = got.reshape(-1, n) if got.shape != (3, n) else got
                want = np.array([V[:, 0], V[:, 1], V[:, 2] if plus else V[:, 1]])
                if got.shape == (n, 3): got = got.T
                ok = got.shape == want.shape and np.allclose(got, want)
                res.append(('C09.v:vector_interval_param:%s%s' % (tag, '+' if plus else ''), 'ok' if ok else 'mismatch', 'sampled %s, columns of the value given %s' % (np.round(got, 6).tolist(), want.tolist())))
            except Exception as e:
                res.append(('C09.v:vector_interval_param:%s%s' % (tag, '+' if plus else ''), 'error', '%s: %s' % (type(e).__name__, (str(e).splitlines() or [''])[-1][:200])))
    return res


def matrix_interval_param():
    """C09: a matrix-valued per-interval parameter (2x2 block per control interval, with/without include_last) keeps its
    element layout: the OCP equals the one written with four scalar per-interval parameters holding the entries (the scalar
    case is the exact family of ScenShoot).  Values given before the transcription and changed live afterwards."""
    import casadi as ca
    from rockit import Ocp, MultipleShooting, DirectCollocation
    res = []
    def nlp(o):
        quiet(lambda: o._transcribed)
        opti = o._method.opti
        return opti, ca.Function('F', [opti.x, opti.p], [opti.f, opti.g, opti.lbg, opti.ubg])
    for tag, mk_m in (('MS', lambda: MultipleShooting(N=3, M=2, intg='rk')), ('DC', lambda: DirectCollocation(N=3, degree=2))):
        for plus in (False, True):
            cl = 'C09.m:matrix_interval_param:%s%s' % (tag, '+' if plus else '')
            try:
                n = 4 if plus else 3
                def vals(seed):
                    r = np.random.RandomState(seed)
                    return [np.round(r.uniform(-1, 1, size=(2, 2)), 3) for _ in range(n)]
                def build(matrix):
                    ocp = Ocp(T=1.5)
                    x = ocp.state(2); u = ocp.control()
                    if matrix:
                        A = ocp.parameter(2, 2, grid='control', include_last=plus); ps = A
                    else:
                        ps = [ocp.parameter(grid='control', include_last=plus) for _ in range(4)]
                        A = ca.vertcat(ca.horzcat(ps[0], ps[1]), ca.horzcat(ps[2], ps[3]))
                    ocp.set_der(x, A @ x + ca.vertcat(0, u))
                    ocp.subject_to(ocp.at_t0(x) == 1); ocp.subject_to(A[0, 1] * x[0] + A[1, 0] * x[1] <= 5)
                    ocp.add_objective(ocp.integral(u ** 2) + ocp.at_tf(x.T @ x) + ocp.sum(A[1, 0] * u))
                    ocp.method(mk_m()); ocp.solver('ipopt', {"print_time": False, "ipopt": {"print_level": 0}})
                    return ocp, ps
                def give(ocp, ps, matrix, V):
                    if matrix: ocp.set_value(ps, np.hstack(V))
                    else:
                        for q, (i, j) in zip(ps, ((0, 0), (0, 1), (1, 0), (1, 1))): ocp.set_value(q, np.array([v[i, j] for v in V]))
                a, pa = build(True); b, pb = build(False)
                ok = True; det = ''
                for phase, seed in (('before', 1), ('live', 2)):
                    give(a, pa, True, vals(seed)); give(b, pb, False, vals(seed))
                    oa, Fa = nlp(a); ob, Fb = nlp(b)
                    va = np.array(oa.debug.value(oa.p, oa.initial())).reshape(-1); vb = np.array(ob.debug.value(ob.p, ob.initial())).reshape(-1)
                    rng = np.random.RandomState(3)
                    for _ in range(2):
                        z = rng.uniform(-1, 1, size=oa.nx)
                        for nm, ra, rb in zip(('f', 'g', 'lbg', 'ubg'), Fa(z, va), Fb(z, vb)):
                            ra, rb = np.array(ra), np.array(rb)
                            if ra.shape != rb.shape or not np.allclose(ra, rb, rtol=1e-11, atol=1e-11, equal_nan=True):
                                ok = False; det = '%s differs (%s values)' % (nm, phase)
                    # read-back keeps the layout
                    _, As = quiet(a.sample, pa, grid='control')
                    got = np.array(oa.debug.value(As, oa.initial()))
                    V = vals(seed); want = np.hstack(V + ([] if plus else [V[-1]]))
                    if got.shape != want.shape or not np.allclose(got, want): ok = False; det = 'sampled blocks %s, given %s (%s)' % (np.round(got, 3).tolist(), want.tolist(), phase)
                res.append((cl, 'ok' if ok else 'mismatch', det))
            except Exception as e:
                res.append((cl, 'mismatch', 'a matrix-valued per-interval parameter cannot be used: %s: %s' % (type(e).__name__, (str(e).splitlines() or [''])[-1][:200])))
    return res


def parent_guess_chain():
    """C12 / C10 at the parent level: guesses of parent variables are applied in order, a later one may refer to an earlier one."""
    from rockit import Ocp, MultipleShooting
    res = []
    try:
        ocp = Ocp()
        a = ocp.variable(); b = ocp.variable()
        s1 = ocp.stage(t0=0, T=1)
        x = s1.state(); u = s1.control(); s1.set_der(x, u); s1.add_objective(s1.integral(u ** 2)); s1.subject_to(s1.at_t0(x) == a); s1.subject_to(s1.at_tf(x) == b)
        s1.method(MultipleShooting(N=2, intg='rk'))
        ocp.add_objective((a - 1) ** 2 + (b - 2) ** 2)
        # (the guess that refers to a is declared first, the guess for a last: rockit hands the last one over first)
        ocp.set_initial(b, a - 0.5); ocp.set_initial(a, 3)
        ocp.solver('ipopt', {"print_time": False, "ipopt": {"print_level": 0}})
        quiet(lambda: ocp._transcribed)
        opti = ocp._method.opti
        got = [float(opti.debug.value(quiet(ocp.value, v_), opti.initial())) for v_ in (a, b)]
        ok = abs(got[0] - 3) < 1e-12 and abs(got[1] - 2.5) < 1e-12
        res.append(('C12.g:parent_guess_chain', 'ok' if ok else 'mismatch', 'parent variables start at %s, guesses 3 and a - 0.5' % got))
    except Exception as e:
        res.append(('C12.g:parent_guess_chain', 'error', '%s: %s' % (type(e).__name__, (str(e).splitlines() or [''])[-1][:200])))
    # a guess of a parent variable written in terms of a parent parameter: the problem with the value written in (C09)
    try:
        ocp = Ocp()
        p = ocp.parameter(); c = ocp.variable()
        s1 = ocp.stage(t0=0, T=1)
        x = s1.state(); u = s1.control(); s1.set_der(x, u); s1.add_objective(s1.integral(u ** 2)); s1.subject_to(s1.at_t0(x) == c)
        s1.method(MultipleShooting(N=2, intg='rk'))
        ocp.add_objective((c - p) ** 2)
        ocp.set_value(p, 3.0); ocp.set_initial(c, 2 * p + 0.25)
        ocp.solver('ipopt', {"print_time": False, "ipopt": {"print_level": 0}})
        quiet(lambda: ocp._transcribed)
        opti = ocp._method.opti
        got = float(opti.debug.value(quiet(ocp.value, c), opti.initial()))
        res.append(('C12.g:parent_guess_param', 'ok' if abs(got - 6.25) < 1e-12 else 'mismatch', 'parent variable starts at %s, guess 2*p + 0.25 with p = 3' % got))
    except Exception as e:
        res.append(('C12.g:parent_guess_param', 'mismatch', 'a guess of a parent variable in terms of a parent parameter cannot be transcribed: %s: %s' % (type(e).__name__, (str(e).splitlines() or [''])[-1][:200])))
    return res


def substage_late_placeholder():
    """C12 / C07 read-back on stages: at_t0 / at_tf of a stage requested only after the solve (as `sol.value(ocp.at_tf(x))`
    works on a single-stage OCP) refer to that stage and equal the end points of its sampled trajectory; no new transcription."""
    from rockit import Ocp, MultipleShooting, DirectCollocation, FreeTime
    res = []
    for tag, mm in (('MS', lambda: MultipleShooting(N=3, intg='rk')), ('DC', lambda: DirectCollocation(N=2, degree=2))):
        cl = 'C12.p:substage_late_placeholder:' + tag
        try:
            ocp = Ocp()
            st = []
            for i, (t0, x0, xf) in enumerate(((0.0, 0.0, 1.0), (1.0, 2.0, -1.0))):
                s = ocp.stage(t0=t0, T=FreeTime(1.0))
                x = s.state(); u = s.control(); s.set_der(x, u + 0.1 * i)
                s.subject_to(s.at_t0(x) == x0); s.subject_to(-3 <= (u <= 3)); s.add_objective(s.T + s.integral(u ** 2) + 10 * (s.at_tf(x) - xf) ** 2)
                s.method(mm()); st.append((s, x, u))
            ocp.solver('ipopt', {"print_time": False, "ipopt": {"print_level": 0, "sb": "yes"}})
            sol = quiet(ocp.solve)
            ok = True; det = []
            for s, x, u in st:
                ts, xs = sol(s).sample(x, grid='control')
                a0 = float(sol(s).value(s.at_t0(x))); af = float(sol(s).value(s.at_tf(2 * x + 1)))
                tf = float(sol(s).value(s.tf))
                det.append('at_t0 %.6g (sample %.6g) at_tf(2x+1) %.6g (sample %.6g) tf %.6g (sample %.6g)' % (a0, xs[0], af, 2 * xs[-1] + 1, tf, ts[-1]))
                ok = ok and abs(a0 - xs[0]) < 1e-9 and abs(af - (2 * xs[-1] + 1)) < 1e-9 and abs(tf - ts[-1]) < 1e-9
            res.append((cl, 'ok' if ok else 'mismatch', '; '.join(det)))
        except Exception as e:
            res.append((cl, 'mismatch', 'read-back of a stage end point requested after the solve fails: %s: %s' % (type(e).__name__, (str(e).splitlines() or [''])[-1][:200])))
    return res


def clone_scale_der():
    """C14 / C12: a clone that re-declares its dynamics with a derivative scale of its own; the template's other clone keeps its
    own.  Compared with the same two stages declared directly (clone == direct): rows of the NLP at a common point."""
    import casadi as ca
    from rockit import Ocp, Stage, DirectCollocation
    res = []
    try:
        def rows(o):
            quiet(lambda: o._transcribed)
            opti = o._method.opti
            F = ca.Function('F', [opti.x, opti.p], [opti.g, opti.lbg, opti.ubg])
            z = 0.3 + 0.1 * np.arange(opti.nx)
            g, lb, ub = [np.array(v).reshape(-1) for v in F(z, np.zeros(opti.np))]
            return sorted(np.round(np.abs(g - lb)[lb == ub], 9).tolist()), opti.nx
        def direct():
            o = Ocp()
            for t0_, sc_, k_ in ((0, 5, 1.0), (1, 40, 2.0)):
                s_ = o.stage(t0=t0_, T=1); x = s_.state(); u = s_.control()
                s_.set_der(x, -k_ * x + u, scale=sc_); s_.add_objective(s_.integral(u ** 2)); s_.subject_to(s_.at_t0(x) == 1)
                s_.method(DirectCollocation(N=2, degree=2))
            o.solver('ipopt', {"print_time": False, "ipopt": {"print_level": 0}})
            return o
        def cloned():
            o = Ocp()
            t = Stage(T=1); x = t.state(); u = t.control()
            t.set_der(x, -1.0 * x + u, scale=5); t.add_objective(t.integral(u ** 2)); t.subject_to(t.at_t0(x) == 1)
            t.method(DirectCollocation(N=2, degree=2))
            s1 = o.stage(t, t0=0); s2 = o.stage(t, t0=1)
            s2.set_der(x, -2.0 * x + u, scale=40)
            o.solver('ipopt', {"print_time": False, "ipopt": {"print_level": 0}})
            return o
        ra, na = rows(quiet(direct)); rb, nb = rows(quiet(cloned))
        ok = na == nb and len(ra) == len(rb) and np.allclose(ra, rb, rtol=1e-9, atol=1e-9)
        res.append(('C14.c:clone_scale_der', 'ok' if ok else 'mismatch', 'equality rows (direct) %s vs (cloned, re-declared on one clone) %s' % (ra[:8], rb[:8])))
    except Exception as e:
        res.append(('C14.c:clone_scale_der', 'error', '%s: %s' % (type(e).__name__, (str(e).splitlines() or [''])[-1][:200])))
    return res
