"""Running TLC: scenario generators (partitioned over several single-worker JVMs so that the
TLCSet register is well defined), plain model-checking instances, and output parsing."""
import os, re, subprocess, tempfile, shutil, json, time, hashlib
from concurrent.futures import ThreadPoolExecutor

SPEC = os.path.join(os.path.dirname(os.path.abspath(__file__)), '..', 'spec')
SPEC = os.path.abspath(SPEC)
TLC = ['tlc']
CACHE = os.path.abspath(os.path.join(SPEC, '..', '.cache'))


class TlcError(Exception):
    pass


def spec_hash():
    h = hashlib.sha256()
    for fn in sorted(os.listdir(SPEC)):
        if fn.endswith('.tla') or fn.endswith('.cfg'):
            h.update(fn.encode()); h.update(open(os.path.join(SPEC, fn), 'rb').read())
    return h.hexdigest()[:16]


def parse_stats(out):
    st = {'states': 0, 'distinct': 0, 'depth': 0}
    m = re.findall(r'(\d+) states generated, (\d+) distinct states found', out)
    if m:
        st['states'] = int(m[-1][0]); st['distinct'] = int(m[-1][1])
    m2 = re.findall(r'The number of states generated: (\d+)', out)
    if m2 and not m:
        st['states'] = int(m2[-1]); st['distinct'] = int(m2[-1]); st['simulation'] = True
    m = re.findall(r'depth of the complete state graph search is (\d+)', out)
    if m: st['depth'] = int(m[-1])
    return st


def run_tlc(module, cfg, env=None, workers=1, timeout=3600, extra=None, tmp=None):
    """Run one TLC process.  Returns (stdout, stats).  Raises TlcError on TLC errors other than
    invariant violations (those are returned in stats['violation'])."""
    own = tmp is None
    tmp = tmp or tempfile.mkdtemp(prefix='vtlc_')
    e = dict(os.environ)
    e.setdefault('JAVA_TOOL_OPTIONS', '-Xmx2g -Xss16m')
    if env: e.update({k: str(v) for k, v in env.items()})
    cmd = TLC + ['-workers', str(workers), '-metadir', os.path.join(tmp, 'meta'), '-noGenerateSpecTE',
                 '-config', os.path.join(SPEC, cfg), os.path.join(SPEC, module + '.tla')] + (extra or [])
    try:
        p = subprocess.run(cmd, env=e, capture_output=True, text=True, timeout=timeout, cwd=tmp)
    except subprocess.TimeoutExpired:
        if own: shutil.rmtree(tmp, ignore_errors=True)
        raise TlcError('TLC timeout: %s %s' % (module, cfg))
    out = p.stdout + p.stderr
    st = parse_stats(out)
    st['violation'] = None
    m = re.search(r'Invariant (\S+) is violated', out)
    m2 = re.search(r'Action property (\S+) is violated|Temporal properties were violated|The postcondition', out)
    if m: st['violation'] = m.group(1)
    elif 'No error has been found' in out or 'Finished computing' in out and 'Error' not in out:
        pass
    elif m2 and 'postcondition' not in m2.group(0).lower(): st['violation'] = m2.group(1) or 'temporal'
    else:
        if own: shutil.rmtree(tmp, ignore_errors=True)
        raise TlcError('TLC failed for %s/%s:\n%s' % (module, cfg, out[-3000:]))
    if own: shutil.rmtree(tmp, ignore_errors=True)
    return out, st


def generate(module, cfg, family, tier, seed, parts=16, timeout=3600, extra_env=None, use_cache=True, extra=None):
    """Run a scenario generator in `parts` single-worker JVMs; returns (records, stats)."""
    key = '%s-%s-%s-%s-%d-%s' % (module, cfg, family, tier, seed, spec_hash())
    if extra_env or extra: key += '-' + hashlib.sha256(json.dumps([extra_env, extra], sort_keys=True).encode()).hexdigest()[:8]
    cf = os.path.join(CACHE, key + '.json')
    if use_cache and os.path.exists(cf):
        d = json.load(open(cf))
        d['stats']['cached'] = True
        return d['records'], d['stats']
    tmp = tempfile.mkdtemp(prefix='vgen_')
    t0 = time.time()

    def one(part):
        out_file = os.path.join(tmp, 'out%d.ndjson' % part)
        env = {'FAMILY': family, 'VERIF_TIER': tier, 'VERIF_SEED': seed, 'PART': part, 'PARTS': parts,
               'OUT_FILE': out_file}
        if extra_env: env.update(extra_env)
        sub = os.path.join(tmp, 'p%d' % part); os.makedirs(sub)
        out, st = run_tlc(module, cfg, env=env, timeout=timeout, tmp=sub, extra=extra)
        if st['violation']:
            raise TlcError('model-level invariant %s violated while generating %s/%s:\n%s' % (st['violation'], module, family, out[-3000:]))
        recs = []
        if os.path.exists(out_file):
            with open(out_file) as f:
                for line in f:
                    line = line.strip()
                    if line: recs.append(json.loads(line))
        return recs, st

    try:
        with ThreadPoolExecutor(max_workers=min(parts, 16)) as ex:
            results = list(ex.map(one, range(parts)))
    finally:
        shutil.rmtree(tmp, ignore_errors=True)
    records = [r for rs, _ in results for r in rs]
    stats = {'states': sum(s['states'] for _, s in results), 'distinct': sum(s['distinct'] for _, s in results),
             'depth': max(s['depth'] for _, s in results), 'tlc_wall_s': round(time.time() - t0, 2), 'cached': False,
             'module': module, 'family': family}
    if use_cache:
        os.makedirs(CACHE, exist_ok=True)
        # (atomic: several checks may run side by side -- seedtool regress)
        with open(cf + '.%d.tmp' % os.getpid(), 'w') as f_: json.dump({'records': records, 'stats': stats}, f_)
        os.replace(cf + '.%d.tmp' % os.getpid(), cf)
    return records, stats
