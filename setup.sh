#!/bin/sh
# Offline setup: nothing to build; verify the tools the checks rely on.
set -e
cd "$(dirname "$0")"
mkdir -p evidence replays .cache
command -v tlc >/dev/null
test -x /venv/bin/python
test -f /opt/veriftools/wheels/networkx-3.6.1-py3-none-any.whl
/venv/bin/python -c "import casadi, numpy" 
echo setup ok
