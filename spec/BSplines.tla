------------------------------ MODULE BSplines ------------------------------
(***************************************************************************)
(* B-splines on a clamped knot vector built from a breakpoint grid (C17).  *)
(* xi : N+1 strictly increasing rationals;  degree d;                      *)
(* knots = xi[1] (d times) ++ xi ++ xi[N+1] (d times);  N + d basis        *)
(* functions (Cox - de Boor recursion, right-continuous, the last          *)
(* breakpoint belonging to the last interval).                             *)
(***************************************************************************)
EXTENDS Rat

Knots(xi, d) == Tup([i \in 1..d |-> xi[1]]) \o xi \o Tup([i \in 1..d |-> xi[Len(xi)]])
NBasis(xi, d) == Len(xi) - 1 + d

\* index (1-based, into knots) of the knot span containing x: kn[j] <= x < kn[j+1], last point -> last non-empty span
Span(kn, d, x) ==
  LET n == Len(kn)
      cand == {j \in d + 1..n - d - 1 : Leq(kn[j], x) /\ Less(x, kn[j + 1])}
  IN IF cand = {} THEN n - d - 1 ELSE CHOOSE j \in cand : TRUE

RECURSIVE BVal(_, _, _, _, _)
\* value at x of basis function i (1-based) of degree p, given the span index j of x
BVal(kn, i, p, x, j) ==
  IF p = 0 THEN (IF i = j THEN One ELSE Zero)
  ELSE LET a == IF Eq(kn[i + p], kn[i]) THEN Zero
                ELSE Mul(Div(Sub(x, kn[i]), Sub(kn[i + p], kn[i])), BVal(kn, i, p - 1, x, j))
           b == IF Eq(kn[i + p + 1], kn[i + 1]) THEN Zero
                ELSE Mul(Div(Sub(kn[i + p + 1], x), Sub(kn[i + p + 1], kn[i + 1])), BVal(kn, i + 1, p - 1, x, j))
       IN Add(a, b)

\* all N+d basis values at x
BasisAt(xi, d, x) == LET kn == Knots(xi, d) j == Span(kn, d, x) IN Tup([i \in 1..NBasis(xi, d) |-> BVal(kn, i, d, x, j)])
\* spline value for coefficients c
SplineAt(xi, d, c, x) == Dot(c, BasisAt(xi, d, x))

\* coefficients of the derivative spline (degree d-1 on the same breakpoints)
DerCoef(xi, d, c) ==
  LET kn == Knots(xi, d)
  IN Tup([i \in 1..Len(c) - 1 |-> Mul(Div(R(d), Sub(kn[i + d + 1], kn[i + 1])), Sub(c[i + 1], c[i]))])

\* Greville abscissae: averages of d consecutive knots (d = 0: interval midpoints)
Greville(xi, d) ==
  IF d = 0 THEN Tup([i \in 1..Len(xi) - 1 |-> Mul(Add(xi[i], xi[i + 1]), Q(1, 2))])
  ELSE LET kn == Knots(xi, d)
       IN Tup([i \in 1..NBasis(xi, d) |-> Mul(SumSeq(Tup([r \in 1..d |-> kn[i + r]])), Q(1, d))])

\* sample points of eval_on_knots: every breakpoint followed by `sub` equidistant interior points of the interval after it
SamplePoints(xi, sub) ==
  LET N == Len(xi) - 1
      pts(k) == <<xi[k]>> \o (IF k <= N THEN Tup([s \in 1..sub |-> Add(xi[k], Mul(Q(s, sub + 1), Sub(xi[k + 1], xi[k])))]) ELSE <<>>)
      RECURSIVE Cat(_)
      Cat(k) == IF k > N + 1 THEN <<>> ELSE pts(k) \o Cat(k + 1)
  IN Cat(1)
=============================================================================
