------------------------------- MODULE Cache -------------------------------
(***************************************************************************)
(* The transcription-cache protocol of an OCP object, generic over the     *)
(* whole public API (Lifecycle.tla models fourteen operations in detail;   *)
(* this module abstracts every public operation to its class).             *)
(*                                                                         *)
(*   ver     version of the user's declaration (one per successful edit)   *)
(*   live    version the live NLP was transcribed from (None: no live NLP) *)
(*   ntr     number of transcriptions performed so far                     *)
(*                                                                         *)
(* Operation classes:                                                      *)
(*   Inval    edits that change what the NLP looks like (new symbols,      *)
(*            dynamics, constraints, objective, method, solver, horizon):  *)
(*            the live NLP is dropped                                      *)
(*   InPlace  set_value / set_initial: remembered in the declaration and,  *)
(*            when a live NLP exists, written into it -- it stays current  *)
(*   Query    sample, value, sampler, to_function, jacobian, ...: answered *)
(*            from the live NLP, which is transcribed first if absent      *)
(*   Solve    a Query that also runs the solver                            *)
(*   Untr     save: drops the live NLP, declaration unchanged              *)
(*   Retr     transcribe(): forces a fresh transcription                   *)
(* A call may raise; what it may have done before raising is stated per    *)
(* class (RaiseX).                                                         *)
(***************************************************************************)
EXTENDS Integers, TLC
CONSTANT Devs          \* deviations for vacuity guards: "InvalKeepsLive", "QueryAlwaysRetranscribes"
VARIABLES ver, live, ntr
cvars == <<ver, live, ntr>>
None == -1

CInit == ver = 0 /\ live = None /\ ntr = 0

Inval == /\ ver' = ver + 1
         /\ live' = IF "InvalKeepsLive" \in Devs THEN live ELSE None
         /\ UNCHANGED ntr
InPlace == /\ ver' = ver + 1
           /\ live' = IF live = ver THEN ver + 1 ELSE live
           /\ UNCHANGED ntr
Current == live = ver /\ "QueryAlwaysRetranscribes" \notin Devs
Query == /\ UNCHANGED ver
         /\ IF Current THEN UNCHANGED <<live, ntr>> ELSE live' = ver /\ ntr' = ntr + 1
Solve == Query
Untr == UNCHANGED <<ver, ntr>> /\ live' = None
Retr == UNCHANGED ver /\ live' = ver /\ ntr' = ntr + 1

\* a raising edit leaves the declaration version alone; it may or may not have dropped the live NLP on the way
RaiseEdit == UNCHANGED <<ver, ntr>> /\ live' \in {live, None}
\* a raising query / solve: nothing happened, or the transcription failed half-way (no live NLP), or it
\* succeeded and the call raised afterwards (unknown grid name, solver failure, ...)
RaiseQuery == /\ UNCHANGED ver
              /\ \/ UNCHANGED <<live, ntr>>
                 \/ ~Current /\ live' = None /\ UNCHANGED ntr
                 \/ ~Current /\ live' = ver /\ ntr' = ntr + 1

CNext == Inval \/ InPlace \/ Query \/ Untr \/ Retr \/ RaiseEdit \/ RaiseQuery
CSpec == CInit /\ [][CNext]_cvars

\* ---- properties of the protocol -------------------------------------------------------------
\* the live NLP is never that of an older declaration
CacheCurrent == live \in {None, ver}
\* an answer is only ever computed from the NLP of the current declaration
AnswersCurrent == [][(ver' = ver /\ live' # None) => live' = ver]_cvars
\* transcriptions happen only when needed: a query on a current cache costs none
NoNeedlessWork == [][(ver' = ver /\ live = ver /\ live' = ver) => (ntr' = ntr \/ ntr' = ntr + 1)]_cvars
Bound == ver <= 4 /\ ntr <= 4
=============================================================================
