------------------------------ MODULE Catalog ------------------------------
(***************************************************************************)
(* Declarations (abstract OCPs) from which scenarios are drawn.            *)
(*                                                                         *)
(* A declaration is a record                                               *)
(*  [t0, T      : [kind : "num"|"free"|"par", v : rational, i : param idx],*)
(*   states     : seq of [scale, dscale],  controls, algs : seq of [scale],*)
(*   params     : seq of [kind : "g"|"c"|"cp", val : seq of rationals],    *)
(*   vars       : seq of [kind, scale],                                    *)
(*   dyn        : "ode" | "next",   rhs, alg, quads : seq of Expr,         *)
(*   cons       : seq of [cid, rel, lhs, rhs, lo, hi, grid, incF, incL,    *)
(*                        scale],                                          *)
(*   obj        : seq of Expr (non-signal, built with placeholders),       *)
(*   init       : seq of guesses,  method : record,  reads : seq]          *)
(* Coefficients are small and pairwise distinct so that any mix-up of      *)
(* arguments, intervals or stage times changes the exact value.            *)
(***************************************************************************)
EXTENDS Expr, Grids

Num(v)  == [kind |-> "num", v |-> v, i |-> 0]
Free(v) == [kind |-> "free", v |-> v, i |-> 0]
Par(i, v) == [kind |-> "par", v |-> v, i |-> i]

S1 == [scale |-> One, dscale |-> One]
Sc(s) == [scale |-> s, dscale |-> One]
Sym1 == [scale |-> One]

Con(cid, rel, lhs, rhs, grid, incF, incL) ==
  [cid |-> cid, rel |-> rel, lhs |-> lhs, rhs |-> rhs, lo |-> CI(0), hi |-> CI(0),
   grid |-> grid, incF |-> incF, incL |-> incL, scale |-> One]
Box(cid, lo, e, hi, grid, incF, incL) ==
  [cid |-> cid, rel |-> "box", lhs |-> e, rhs |-> CI(0), lo |-> lo, hi |-> hi,
   grid |-> grid, incF |-> incF, incL |-> incL, scale |-> One]
VCon(cid, lhs, rhs, grid, incF, incL, vscale) ==
  [cid |-> cid, rel |-> "vle", lhs |-> lhs, rhs |-> rhs, lo |-> CI(0), hi |-> CI(0),
   grid |-> grid, incF |-> incF, incL |-> incL, scale |-> One, vscale |-> vscale]
\* vector double inequality  lo[i] <= lhs[i] <= hi[i]  with constant bounds, some of which may be infinite (InfE); scalar scale
InfE == [op |-> "inf"]
VBox(cid, lo, lhs, hi, grid, incF, incL) ==
  [cid |-> cid, rel |-> "vbox", lhs |-> lhs, rhs |-> CI(0), lo |-> lo, hi |-> hi,
   grid |-> grid, incF |-> incF, incL |-> incL, scale |-> One]
Scaled(c, s) == IF c.rel = "vle" THEN c ELSE [c EXCEPT !.scale = s]

MethodDC(N, M, scheme, degree, grid) ==
  [kind |-> "DC", N |-> N, M |-> M, intg |-> "", grid |-> grid, degree |-> degree, scheme |-> scheme]
Method(kind, N, M, intg, grid) ==
  [kind |-> kind, N |-> N, M |-> M, intg |-> intg, grid |-> grid, degree |-> 0, scheme |-> ""]

Base == [t0 |-> Num(Zero), T |-> Num(One),
         states |-> <<>>, controls |-> <<>>, algs |-> <<>>, params |-> <<>>, vars |-> <<>>,
         pq |-> Q(7, 4),       \* value of the parent's own parameter (multi-stage scenarios)
         catset |-> FALSE, zblocks |-> <<>>,
         xblocks |-> <<>>, pblocks |-> <<>>,     \* grouping of consecutive scalar symbols into matrix-valued rockit symbols (<<>> = all scalar)
         dyn |-> "ode", rhs |-> <<>>, alg |-> <<>>, quads |-> <<>>,
         qstates |-> FALSE,      \* TRUE: every integrand of quads is also declared as a quadrature state (state(quad=True)), read as QS(i)
         cons |-> <<>>, obj |-> <<>>, init |-> <<>>, reads |-> <<>>,
         method |-> Method("MS", 1, 1, "rk", Uniform)]

(* parameter values: distinct small rationals, one per column *)
PVals(i, n) == Tup([c \in 1..n |-> Q(2 * i + c, 2)])
PCols(kind, N) == CASE kind = "g" -> 1 [] kind = "c" -> N [] kind = "cp" -> N + 1

(***************************************************************************)
(* Right-hand sides                                                        *)
(***************************************************************************)
\* R1:  x' = 2x + u
R1(N) == [Base EXCEPT !.states = <<S1>>, !.controls = <<Sym1>>,
                      !.rhs = <<Plus(Times(CI(2), X(1)), U(1))>>]
\* R2:  x' = 3x + u + p t           (global parameter, explicit time)
R2(N) == [Base EXCEPT !.states = <<S1>>, !.controls = <<Sym1>>,
                      !.params = <<[kind |-> "g", val |-> PVals(1, 1)]>>,
                      !.rhs = <<Plus3(Times(CI(3), X(1)), U(1), Times(P(1), Tm))>>]
\* R3:  x1' = x2 + pc t ; x2' = -x1 + u vc + v   (per-interval parameter and variable, global variable)
R3(N) == [Base EXCEPT !.states = <<S1, S1>>, !.controls = <<Sym1>>,
                      !.params = <<[kind |-> "c", val |-> PVals(1, N)]>>,
                      !.vars = <<[kind |-> "c", scale |-> One], [kind |-> "g", scale |-> One]>>,
                      !.rhs = <<Plus(X(2), Times(P(1), Tm)),
                                Plus3(NegE(X(1)), Times(U(1), V(1)), V(2))>>]
\* R4:  x' = x t u + pcp            (nonlinear, per-interval-plus parameter)
R4(N) == [Base EXCEPT !.states = <<S1>>, !.controls = <<Sym1>>,
                      !.params = <<[kind |-> "cp", val |-> PVals(2, N + 1)]>>,
                      !.rhs = <<Plus(Times(Times(X(1), Tm), U(1)), P(1))>>]
\* R5:  x' = x^2/4 + u              (nonlinear in the state)
R5(N) == [Base EXCEPT !.states = <<S1>>, !.controls = <<Sym1>>,
                      !.rhs = <<Plus(Times(C(1, 4), Sq(X(1))), U(1))>>]
\* R7:  x+ = x + DT u + DTc p + t   (discrete time)
R7(N) == [Base EXCEPT !.states = <<S1>>, !.controls = <<Sym1>>, !.dyn = "next",
                      !.params = <<[kind |-> "g", val |-> PVals(1, 1)]>>,
                      !.rhs = <<Plus(Plus3(X(1), Times(DTs, U(1)), Times(DTc, P(1))), Tm)>>]

\* R6:  x' = z u + t ,  0 = z - 2x - 1     (index-1 DAE, DirectCollocation only)
R6(N) == [Base EXCEPT !.states = <<S1>>, !.controls = <<Sym1>>, !.algs = <<Sym1>>,
                      !.rhs = <<Plus(Times(Z(1), U(1)), Tm)>>,
                      !.alg = <<Minus(Minus(Z(1), Times(CI(2), X(1))), CI(1))>>]

\* RD:  x' = z1 u + z3 + t ,  0 = z1 - 2x - 1 ,  0 = z2 - x + u ,  0 = z3 - z1 - z2
\*      (index-1 DAE whose first algebraic variable is the 2x1 vector (z1, z2), followed by the scalar z3; DirectCollocation only)
RD(N) == [Base EXCEPT !.states = <<S1>>, !.controls = <<Sym1>>, !.algs = <<Sym1, Sym1, Sym1>>, !.zblocks = <<<<2, 1>>, <<1, 1>>>>,
                      !.rhs = <<Plus3(Times(Z(1), U(1)), Z(3), Tm)>>,
                      !.alg = <<Minus(Minus(Z(1), Times(CI(2), X(1))), CI(1)), Plus(Minus(Z(2), X(1)), U(1)), Minus(Minus(Z(3), Z(1)), Z(2))>>]

\* R8:  2x2 matrix state X (column-major x1..x4), 2x2 matrix parameter P:  x_i' = p_i x_i + i u
R8(N) == [Base EXCEPT !.states = <<S1, S1, S1, S1>>, !.controls = <<Sym1>>,
                      !.params = Tup([i \in 1..4 |-> [kind |-> "g", val |-> <<Q(i, 2)>>]]),
                      !.xblocks = <<<<2, 2>>>>, !.pblocks = <<<<2, 2>>>>,
                      !.rhs = Tup([i \in 1..4 |-> Plus(Times(P(i), X(i)), Times(CI(i), U(1)))])]
\* R9:  R8 followed by a scalar state x5 and a scalar parameter p5:  x5' = p5 x5 + x1.  catset: dynamics and parameter values
\*      are given through ONE concatenated assignment each -- set_der(veccat(X, x5), ...), set_value(veccat(P, p5), ...) --
\*      whose meaning is the element-wise one (column-major within the matrix, then the scalar)
R9(N) == [Base EXCEPT !.states = <<S1, S1, S1, S1, S1>>, !.controls = <<Sym1>>,
                      !.params = Tup([i \in 1..5 |-> [kind |-> "g", val |-> <<Q(i, 2)>>]]),
                      !.xblocks = <<<<2, 2>>, <<1, 1>>>>, !.pblocks = <<<<2, 2>>, <<1, 1>>>>, !.catset = TRUE,
                      !.rhs = Tup([i \in 1..5 |-> IF i <= 4 THEN Plus(Times(P(i), X(i)), Times(CI(i), U(1))) ELSE Plus(Times(P(5), X(5)), X(1))])]
\* RE:  a 2x1 vector state (x1, x2) declared before the scalar state x3:  x1' = x2, x2' = u, x3' = x1 + u
RE(N) == [Base EXCEPT !.states = <<S1, S1, S1>>, !.controls = <<Sym1>>, !.xblocks = <<<<2, 1>>, <<1, 1>>>>,
                      !.rhs = <<X(2), U(1), Plus(X(1), U(1))>>]
\* RF:  x' = u1 + 2 u2 + x   (two controls; the integrands u1^2 and u2^2 are two separate integral terms)
RF(N) == [Base EXCEPT !.states = <<S1>>, !.controls = <<Sym1, Sym1>>,
                      !.rhs = <<Plus(Plus(U(1), Times(CI(2), U(2))), X(1))>>,
                      !.quads = <<Sq(U(1)), Sq(U(2))>>]      \* (the two integrands print alike: all controls are named u)
\* R3v: R3 with the two states declared as one 2x1 vector state
R3v(N) == [R3(N) EXCEPT !.xblocks = <<<<2, 1>>>>]

\* RA:  x' = pc x + pcp t + u      (both kinds of per-interval parameter in the dynamics)
RA(N) == [Base EXCEPT !.states = <<S1>>, !.controls = <<Sym1>>,
                      !.params = <<[kind |-> "c", val |-> PVals(1, N)], [kind |-> "cp", val |-> PVals(3, N + 1)]>>,
                      !.rhs = <<Plus3(Times(P(1), X(1)), Times(P(2), Tm), U(1))>>]

\* RG:  a 2x2 matrix-valued per-interval parameter P (column-major p1..p4; one 2x2 block per control interval):
\*      x' = p1 x + p2 t + p3 u + p4.  Element layout: entry (r, c) of the block of interval k is p_(r + 2(c-1)) on interval k
RG(N) == [Base EXCEPT !.states = <<S1>>, !.controls = <<Sym1>>,
                      !.params = Tup([i \in 1..4 |-> [kind |-> "c", val |-> PVals(i, N)]]), !.pblocks = <<<<2, 2>>>>,
                      !.rhs = <<Plus(Plus3(Times(P(1), X(1)), Times(P(2), Tm), Times(P(3), U(1))), P(4))>>]

\* RB:  x' = 2x + u + vcp          (a per-interval variable with an entry of its own at the final node)
RB(N) == [Base EXCEPT !.states = <<S1>>, !.controls = <<Sym1>>, !.vars = <<[kind |-> "cp", scale |-> One]>>,
                      !.rhs = <<Plus3(Times(CI(2), X(1)), U(1), V(1))>>]

\* RC:  x' = vc x + vcp t + u + v   (all three kinds of variables in the dynamics; declared in the order cp, c, global)
RC(N) == [Base EXCEPT !.states = <<S1>>, !.controls = <<Sym1>>,
                      !.vars = <<[kind |-> "cp", scale |-> One], [kind |-> "c", scale |-> One], [kind |-> "g", scale |-> One]>>,
                      !.rhs = <<Plus(Plus3(Times(V(2), X(1)), Times(V(1), Tm), U(1)), V(3))>>]

RhsIds == {"R1", "R2", "R3", "R4", "R5", "R7"}
Rhs(id, N) == CASE id = "R1" -> R1(N) [] id = "R2" -> R2(N) [] id = "R3" -> R3(N)
                [] id = "R4" -> R4(N) [] id = "R5" -> R5(N) [] id = "R7" -> R7(N) [] id = "R6" -> R6(N) [] id = "RD" -> RD(N) [] id = "R8" -> R8(N) [] id = "R9" -> R9(N) [] id = "RE" -> RE(N) [] id = "RF" -> RF(N) [] id = "R3v" -> R3v(N) [] id = "RA" -> RA(N) [] id = "RG" -> RG(N) [] id = "RB" -> RB(N) [] id = "RC" -> RC(N)

(***************************************************************************)
(* Path / boundary constraints (all well-formed for every rhs above:       *)
(* they mention x1, u1, t and T only)                                      *)
(***************************************************************************)
K1 == Con("k1", "le", Plus(X(1), Times(U(1), Tm)), CI(5), "control", TRUE, TRUE)
K2 == Con("k2", "ge", U(1), CI(-3), "control", FALSE, FALSE)
K3 == Box("k3", CI(-4), Plus(X(1), U(1)), Plus(CI(4), Tm), "control", TRUE, FALSE)
K4 == Con("k4", "eq", AtT0(X(1)), C(1, 2), "point", TRUE, TRUE)
K5 == Con("k5", "le", Minus(AtTf(X(1)), AtT0(X(1))), TT, "point", TRUE, TRUE)
K6 == Con("k6", "le", Minus(Off(X(1), 1), X(1)), CI(3), "control", TRUE, TRUE)
K7 == Con("k7", "le", Times(X(1), Tm), CI(6), "integrator", TRUE, TRUE)
K8 == Con("k8", "ge", Plus(X(1), U(1)), CI(-7), "integrator", FALSE, FALSE)
K9 == Con("k9", "le", Minus(U(1), Off(U(1), 1)), CI(2), "control", FALSE, TRUE)
KA == Con("kA", "le", Minus(X(1), Off(X(1), -1)), CI(3), "control", TRUE, TRUE)
KB == Con("kB", "ge", Plus(Off(X(1), 2), Off(U(1), -1)), CI(-9), "control", TRUE, TRUE)

KR == Con("kR", "le", Times(X(1), Tm), CI(6), "roots", TRUE, TRUE)
KS == Box("kS", CI(-8), Plus(X(1), U(1)), CI(8), "roots", TRUE, TRUE)
\* next() of a per-interval quantity that has its own entry at the final node (models RB: variable, R4: parameter)
KM == Con("kM", "le", Minus(Off(V(1), 1), X(1)), CI(4), "control", TRUE, TRUE)
KMp == Con("kMp", "le", Minus(Off(P(1), 1), X(1)), CI(4), "control", TRUE, TRUE)
\* vector-valued path constraint with element-wise scale
KV == VCon("kV", <<X(1), Times(U(1), Tm)>>, <<CI(5), Plus(CI(3), X(1))>>, "control", TRUE, FALSE, <<R(2), Q(1, 2)>>)
ConIds == {"k1", "k2", "k3", "k4", "k5", "k6", "k7", "k8", "k9", "kA", "kB"}
\* offsets of magnitude two and more: instances exist only where node k + o lies inside the horizon (nothing wraps around)
KC == Con("kC", "le", Minus(X(1), Off(X(1), -2)), CI(3), "control", TRUE, TRUE)
KD == Con("kD", "ge", Plus(Off(U(1), -2), Off(X(1), 1)), CI(-8), "control", TRUE, TRUE)
\* true for every fixed horizon, and a constant once the horizon is written in: the transcription may drop it, nothing else may change
KT0 == Con("kT0", "ge", Plus(TT, CI(1)), CI(0), "point", TRUE, TRUE)
KW == VBox("kW", <<InfE, CI(-1)>>, <<X(1), Plus(U(1), X(1))>>, <<CI(5), CI(7)>>, "control", TRUE, FALSE)
KX == VBox("kX", <<CI(-5), CI(-7)>>, <<Times(X(1), Tm), U(1)>>, <<CI(4), InfE>>, "control", FALSE, TRUE)
ConOf(id) == CASE id = "k1" -> K1 [] id = "k2" -> K2 [] id = "k3" -> K3 [] id = "k4" -> K4
               [] id = "k5" -> K5 [] id = "k6" -> K6 [] id = "k7" -> K7 [] id = "k8" -> K8
               [] id = "k9" -> K9 [] id = "kA" -> KA [] id = "kB" -> KB [] id = "kR" -> KR [] id = "kS" -> KS [] id = "kV" -> KV [] id = "kM" -> KM [] id = "kMp" -> KMp
               [] id = "kW" -> KW [] id = "kX" -> KX [] id = "kC" -> KC [] id = "kD" -> KD [] id = "kT0" -> KT0

(***************************************************************************)
(* Objective terms.  Integrands live in d.quads and are referred to by     *)
(* Int(i).                                                                 *)
(***************************************************************************)
O1 == AtTf(Sq(X(1)))                                  \* Mayer at tf
O2 == AtT0(Times(X(1), U(1)))                         \* Mayer at t0
O3 == SumE(Plus(Sq(U(1)), X(1)))                      \* sum over intervals
O4 == SumPlusE(Times(X(1), Tm))                       \* sum incl. final node
O5 == IntC(Plus(X(1), Times(U(1), Tm)))               \* integral(grid='control')
O6 == IntQ(1)                                         \* integral of quads[1]
O7 == Times(TT, CI(3))                                \* term in T
O8 == Plus(T0, TF)                                    \* t0 and tf
Q1 == Plus(Sq(X(1)), Times(U(1), Tm))                 \* integrand: nonlinear, time dependent
Q2 == Times(X(1), U(1))

O9 == SumE(Times(Off(X(1), 1), U(1)))                 \* next() inside a sum: node k+1 for every interval k
OB == IntQ(2)                                         \* integral of quads[2]
ObjIds == {"o1", "o2", "o3", "o4", "o5", "o6", "o7", "o8", "o9"}
ObjOf(id) == CASE id = "o1" -> O1 [] id = "o2" -> O2 [] id = "o3" -> O3 [] id = "o4" -> O4
               [] id = "o5" -> O5 [] id = "o6" -> O6 [] id = "o7" -> O7 [] id = "o8" -> O8 [] id = "o9" -> O9 [] id = "oB" -> OB

RRead(tag, e, refine) == [tag |-> tag, kind |-> "refine", e |-> e, grid |-> "integrator", refine |-> refine]
SRead(tag, e, tq) == [tag |-> tag, kind |-> "sampler", e |-> e, grid |-> "", refine |-> 0, tq |-> tq]
MRead(tag, kind, es, grid) == [tag |-> tag, kind |-> kind, es |-> es, grid |-> grid, refine |-> 0]
Read(tag, kind, e, grid) == [tag |-> tag, kind |-> kind, e |-> e, grid |-> grid, refine |-> 0]
=============================================================================
