------------------------------- MODULE Expr -------------------------------
(***************************************************************************)
(* The expression language of an OCP declaration as an AST of records,     *)
(* and its exact evaluation.                                               *)
(*                                                                         *)
(* Leaves:   [op |-> "c", v |-> <<n,d>>]          rational constant        *)
(*           [op |-> "x"|"u"|"z"|"p"|"v"|"q", i]  i-th state / control /   *)
(*                    algebraic / parameter / variable / quadrature state  *)
(*           [op |-> "t"|"T"|"t0"|"tf"|"DT"|"DTc"]                          *)
(* Interior: add, sub, mul (a, b) ; neg, sq (a)                            *)
(* Placeholders (only meaningful to Nlp!EvalW):                            *)
(*           at_t0, at_tf, sum, sump, intc (a) ; int (i) ; off (a, o)      *)
(***************************************************************************)
EXTENDS Rat

C(n, d)  == [op |-> "c", v |-> Q(n, d)]
CI(n)    == [op |-> "c", v |-> R(n)]
X(i)     == [op |-> "x", i |-> i]
U(i)     == [op |-> "u", i |-> i]
Z(i)     == [op |-> "z", i |-> i]
P(i)     == [op |-> "p", i |-> i]
V(i)     == [op |-> "v", i |-> i]
QS(i)    == [op |-> "q", i |-> i]
Inert(a) == [op |-> "inert", a |-> a]
DX(i)    == [op |-> "dx", i |-> i]      \* inf_der(x_i): only inside grid='inf' constraints
Tm       == [op |-> "t"]
TT       == [op |-> "T"]
T0       == [op |-> "t0"]
TF       == [op |-> "tf"]
DTs      == [op |-> "DT"]
DTc      == [op |-> "DTc"]
Plus(a, b)  == [op |-> "add", a |-> a, b |-> b]
Minus(a, b) == [op |-> "sub", a |-> a, b |-> b]
Times(a, b) == [op |-> "mul", a |-> a, b |-> b]
NegE(a)     == [op |-> "neg", a |-> a]
Sq(a)       == [op |-> "sq", a |-> a]
AtT0(a)     == [op |-> "at_t0", a |-> a]
AtTf(a)     == [op |-> "at_tf", a |-> a]
SumE(a)     == [op |-> "sum", a |-> a]
SumPlusE(a) == [op |-> "sump", a |-> a]
IntC(a)     == [op |-> "intc", a |-> a]
IntQ(i)     == [op |-> "int", i |-> i]
Off(a, o)   == [op |-> "off", a |-> a, o |-> o]
Plus3(a, b, c) == Plus(Plus(a, b), c)

IsLeafOp(o) == o \in {"dx", "c", "x", "u", "z", "p", "v", "q", "t", "T", "t0", "tf", "DT", "DTc", "int"}
IsBinOp(o)  == o \in {"add", "sub", "mul"}
IsUnOp(o)   == o \in {"neg", "sq", "at_t0", "at_tf", "sum", "sump", "intc", "off"}

(* env == [x, u, z, p, v, q : sequences of rationals ; t, T, t0, DT, DTc : rationals] *)
RECURSIVE Eval(_, _)
Eval(e, env) ==
  CASE e.op = "c"   -> e.v
    [] e.op = "x"   -> env.x[e.i]
    [] e.op = "u"   -> env.u[e.i]
    [] e.op = "z"   -> env.z[e.i]
    [] e.op = "p"   -> env.p[e.i]
    [] e.op = "v"   -> env.v[e.i]
    [] e.op = "q"   -> env.q[e.i]
    [] e.op = "t"   -> env.t
    [] e.op = "T"   -> env.T
    [] e.op = "t0"  -> env.t0
    [] e.op = "tf"  -> Add(env.t0, env.T)
    [] e.op = "DT"  -> env.DT
    [] e.op = "DTc" -> env.DTc
    [] e.op = "add" -> Add(Eval(e.a, env), Eval(e.b, env))
    [] e.op = "sub" -> Sub(Eval(e.a, env), Eval(e.b, env))
    [] e.op = "mul" -> Mul(Eval(e.a, env), Eval(e.b, env))
    [] e.op = "neg" -> Neg(Eval(e.a, env))
    [] e.op = "inert" -> Eval(e.a, env)          \* inf_inert(e): e itself, held constant over an integrator step in grid='inf' constraints
    [] e.op = "sq"  -> LET w == Eval(e.a, env) IN Mul(w, w)

EvalVec(es, env) == Tup([i \in 1..Len(es) |-> Eval(es[i], env)])

(* Set of offsets occurring in an expression (for constraint placement). *)
RECURSIVE Offsets(_)
Offsets(e) ==
  IF IsLeafOp(e.op) THEN {}
  ELSE IF e.op = "off" THEN {e.o} \cup Offsets(e.a)
  ELSE IF IsBinOp(e.op) THEN Offsets(e.a) \cup Offsets(e.b)
  ELSE Offsets(e.a)

(* Does the expression mention a leaf with the given op (outside placeholders
   that remove time dependence)? *)
RECURSIVE Mentions(_, _)
Mentions(e, ops) ==
  IF e.op \in ops THEN TRUE
  ELSE IF IsLeafOp(e.op) THEN FALSE
  ELSE IF IsBinOp(e.op) THEN Mentions(e.a, ops) \/ Mentions(e.b, ops)
  ELSE Mentions(e.a, ops)

(***************************************************************************)
(* Symbolic partial derivative wrt a leaf [op, i] (i ignored for t).        *)
(* Used by Der (total time derivative, C16).                               *)
(***************************************************************************)
RECURSIVE DLeaf(_, _, _)
DLeaf(e, op, i) ==
  CASE e.op = "c" -> CI(0)
    [] e.op \in {"x", "u", "z", "p", "v", "q"} -> IF e.op = op /\ e.i = i THEN CI(1) ELSE CI(0)
    [] e.op \in {"t", "T", "t0", "tf", "DT", "DTc"} -> IF e.op = op THEN CI(1) ELSE CI(0)
    [] e.op = "add" -> Plus(DLeaf(e.a, op, i), DLeaf(e.b, op, i))
    [] e.op = "sub" -> Minus(DLeaf(e.a, op, i), DLeaf(e.b, op, i))
    [] e.op = "mul" -> Plus(Times(DLeaf(e.a, op, i), e.b), Times(e.a, DLeaf(e.b, op, i)))
    [] e.op = "neg" -> NegE(DLeaf(e.a, op, i))
    [] e.op = "sq"  -> Times(Times(CI(2), e.a), DLeaf(e.a, op, i))

RECURSIVE SumExprs(_, _)
SumExprs(es, i) == IF i > Len(es) THEN CI(0) ELSE Plus(es[i], SumExprs(es, i + 1))

\* total derivative of e along x' = rhs : de/dt + sum_i de/dx_i * rhs_i
Der(e, rhs) == Plus(DLeaf(e, "t", 0),
                    SumExprs(Tup([i \in 1..Len(rhs) |-> Times(DLeaf(e, "x", i), rhs[i])]), 1))
\* ... with quadrature states q' = quads next to the states
DerQ(e, rhs, quads) == Plus(Der(e, rhs), SumExprs(Tup([i \in 1..Len(quads) |-> Times(DLeaf(e, "q", i), quads[i])]), 1))
=============================================================================