------------------------------- MODULE Faults -------------------------------
(***************************************************************************)
(* C20: ill-posed specifications are rejected, never silently transcribed. *)
(*                                                                         *)
(* The declaration is abstracted to the set of *defects* it currently has. *)
(* A fault from the catalogue, injected at a position of the declaration   *)
(* script, adds a defect.  Transcription is enabled only on a defect-free  *)
(* declaration; the solver is only ever reached through a transcription.   *)
(* The invariant is the property: the solver never sees an ill-posed       *)
(* problem, and an ill-posed problem has raised by the time a solve was    *)
(* requested.                                                              *)
(***************************************************************************)
EXTENDS Integers, Sequences, FiniteSets, TLC

Methods == {"MS", "SS", "DC", "SP"}
Where == {"root", "sub"}                       \* dynamics on the OCP itself or on a sub-stage
Positions == {"early", "late", "after_solve"}   \* right after the symbols exist / just before solve / after a successful solve

(* fault id -> applicable methods *)
FaultMethods(f) ==
  CASE f = "alg_explicit"   -> {"MS", "SS"}
    [] f = "spline_timevar" -> {"SP"}
    [] f = "spline_nonlin"  -> {"SP"}
    [] f = "spline_affine" -> {"SP"}               \* der(x) = u + 1: an offset the chains of differentiations cannot represent
    [] f = "spline_quadstate" -> {"SP"}            \* a user-declared quadrature state under SplineMethod: there is no integrator to compute it
    [] f = "roots_shooting" -> {"MS", "SS"}
    [] f = "alg_explicit_euler" -> {"MS", "SS"}
    [] f = "alg_without_algebraic" -> {"MS", "SS", "DC"}   \* add_alg(...) with no algebraic variable to solve it for
    [] f = "inf_no_guarantee" -> {"MS", "SS"}      \* grid='inf' with a scheme that has no degree-4 dense output (C15)
    [] f = "inf_time_dependent" -> {"MS", "SS", "DC"}  \* grid='inf' on an expression with explicit time: frozen per interval it certifies nothing
    [] f = "inf_algebraic" -> {"DC"}                 \* grid='inf' on an algebraic variable (no polynomial representation)
    [] f = "inf_nonpolynomial" -> {"MS", "SS", "DC"} \* grid='inf' on sin / exp / sqrt / quotient of the states: no polynomial certificate exists (C15)
    [] f = "no_value_clone" -> {"MS", "SS", "DC"}    \* two stages cloned from one template; only one of them gets a value for the template's parameter
    [] OTHER -> Methods
Faults == {"none", "no_der", "no_value", "no_method", "no_solver", "signal_objective", "nonscalar_objective",
           "set_value_nonparam", "set_initial_param", "set_initial_unknown", "unknown_grid_subject_to", "unknown_grid_sample",
           "foreign_symbol_constraint", "foreign_symbol_objective", "foreign_symbol_ode", "false_constant_constraint",
           "alg_explicit", "spline_timevar", "spline_nonlin", "horizon_in_ode", "roots_shooting", "no_next", "inf_no_guarantee", "alg_explicit_euler", "false_after_fill",
           "inf_nonpolynomial", "no_value_clone", "spline_quadstate", "spline_affine", "unknown_grid_integral", "unknown_grid_sum", "alg_without_algebraic", "inf_time_dependent", "inf_algebraic", "set_value_quadstate", "set_value_bspline_variable", "state_without_der", "unknown_grid_sum_plus"}
(* omission faults have no position: the step is simply missing *)
Omission == {"no_der", "no_value", "no_method", "no_solver", "no_next"}

VARIABLES cfg, defects, phase, raised, solverCalls
vars == <<cfg, defects, phase, raised, solverCalls>>

Cfgs == {c \in [fault : Faults, meth : Methods, where : Where, pos : Positions] :
            /\ c.meth \in FaultMethods(c.fault)
            /\ (c.fault \in Omission \cup {"none"} => c.pos = "late")
            /\ (c.fault = "no_next" => c.meth \in {"MS", "SS"})
            /\ (c.fault = "no_value_clone" => c.where = "sub" /\ c.pos = "late")
            /\ (c.fault \in {"inf_no_guarantee", "alg_explicit_euler"} => c.pos # "early")}     \* it replaces the method, so it must come after ocp.method

Init == cfg \in Cfgs /\ defects = {} /\ phase = "declaring" /\ raised = FALSE /\ solverCalls = 0

Inject == /\ phase \in {"declaring", "solved"} /\ cfg.fault # "none" /\ cfg.fault \notin defects /\ ~raised
          /\ (cfg.pos = "after_solve" => phase = "solved")
          /\ (cfg.pos # "after_solve" => phase = "declaring")
          /\ defects' = defects \cup {cfg.fault}
          /\ phase' = "declaring"
          /\ UNCHANGED <<cfg, raised, solverCalls>>
\* a declaring call may itself reject the fault (then the declaration stays clean)
RejectAtDeclaration == /\ cfg.fault \in defects /\ ~raised
                       /\ raised' = TRUE /\ UNCHANGED <<cfg, defects, phase, solverCalls>>
Solve == /\ phase = "declaring" /\ ~raised
         /\ (cfg.pos = "after_solve" /\ cfg.fault \notin defects => solverCalls = 0)
         /\ IF defects = {} THEN phase' = "solved" /\ solverCalls' = solverCalls + 1 /\ UNCHANGED raised
            ELSE raised' = TRUE /\ UNCHANGED <<phase, solverCalls>>
         /\ UNCHANGED <<cfg, defects>>
Next == Inject \/ RejectAtDeclaration \/ Solve

NeverSolvedIllPosed == solverCalls > 0 /\ defects # {} => FALSE \/ phase = "declaring"
SolverOnlySeesWellPosed == [][solverCalls' > solverCalls => defects = {}]_vars
=============================================================================
