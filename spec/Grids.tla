------------------------------- MODULE Grids -------------------------------
(***************************************************************************)
(* Time grids of the sampling methods (C06).                               *)
(*                                                                         *)
(* A grid specification is a record                                        *)
(*   [kind  : "uniform" | "geometric" | "function" | "density" | "free",   *)
(*    r     : rational, ratio of consecutive intervals (geometric),        *)
(*    growth: rational, the growth_factor handed to rockit,                *)
(*    local : BOOLEAN (geometric: growth is per interval),                 *)
(*    nodes : sequence of N+1 rationals (function grid),                   *)
(*    lt0, lT : BOOLEAN  (localize_t0, localize_T),                        *)
(*    hasmin, hasmax : BOOLEAN, min, max : rationals]                      *)
(*                                                                         *)
(* Grid variables (decision variables owned by the grid) are a record      *)
(*   gv == [Tl : N rationals (T_local), t0l : N+1 rationals (t0_local)]    *)
(* of which only the entries the formulation really has are meaningful.    *)
(***************************************************************************)
EXTENDS Rat

GridSpec(kind, r, growth, local, nodes, lt0, lT, hasmin, min, hasmax, max) ==
  [kind |-> kind, r |-> r, growth |-> growth, local |-> local, nodes |-> nodes,
   lt0 |-> lt0, lT |-> lT, hasmin |-> hasmin, min |-> min, hasmax |-> hasmax, max |-> max]

Uniform == GridSpec("uniform", One, One, FALSE, <<>>, FALSE, FALSE, FALSE, Zero, FALSE, Zero)
Geometric(r, N, local) ==
  GridSpec("geometric", r, IF local \/ N = 1 THEN r ELSE Pow(r, N - 1), local, <<>>,
           FALSE, FALSE, FALSE, Zero, FALSE, Zero)
FunctionG(nodes) == GridSpec("function", One, One, FALSE, nodes, FALSE, FALSE, FALSE, Zero, FALSE, Zero)
\* DensityGrid: the nodes equidistribute a density; they are given here (a constant density has the uniform nodes, other
\* densities have irrational ones and are covered by TraceDensity).  Bounds act on every interval, like for FunctionGrid.
DensityG(nodes) == [FunctionG(nodes) EXCEPT !.kind = "density"]
FreeG == GridSpec("free", One, One, FALSE, <<>>, FALSE, TRUE, FALSE, Zero, FALSE, Zero)
WithLocal(G, lt0, lT) == [G EXCEPT !.lt0 = lt0, !.lT = (lT \/ G.kind = "free")]
WithMin(G, m) == [G EXCEPT !.hasmin = TRUE, !.min = m]
WithMax(G, m) == [G EXCEPT !.hasmax = TRUE, !.max = m]

(* interval weights r^0 .. r^(N-1) *)
GeoW(r, N) == Tup([k \in 1..N |-> Pow(r, k - 1)])

RECURSIVE CumSum(_, _, _)
\* <<s, s+w1, s+w1+w2, ...>> : Len(w)+1 entries
CumSum(s, w, i) == IF i > Len(w) THEN <<s>> ELSE <<s>> \o CumSum(Add(s, w[i]), w, i + 1)

(* Declared normalised node locations, N+1 rationals from 0 to 1. *)
Normalized(G, N) ==
  CASE G.kind = "uniform"   -> Tup([k \in 1..N + 1 |-> Q(k - 1, N)])
    [] G.kind = "free"      -> Tup([k \in 1..N + 1 |-> Q(k - 1, N)])   \* used for guesses only
    [] G.kind \in {"function", "density"}  -> G.nodes
    [] G.kind = "geometric" ->
         LET w == GeoW(G.r, N)
             tot == SumSeq(w)
             cs == CumSum(Zero, w, 1)
         IN Tup([k \in 1..N + 1 |-> Div(cs[k], tot)])

(* The declared partition of [t0, t0+T] *)
Declared(G, N, t0, T) == LET n == Normalized(G, N) IN Tup([k \in 1..N + 1 |-> Add(t0, Mul(T, n[k]))])

HasTl(G)  == G.lT \/ G.kind = "free"
HasT0l(G) == G.lt0

(* The control grid as a function of the grid variables (what the NLP uses) *)
ControlGrid(G, N, t0, T, gv) ==
  IF HasT0l(G) THEN Tup([k \in 1..N + 1 |-> IF k = 1 THEN t0 ELSE gv.t0l[k]])
  ELSE IF HasTl(G) THEN CumSum(t0, gv.Tl, 1)
  ELSE Declared(G, N, t0, T)

(* The unique assignment of grid variables that reproduces a given grid g *)
GvOf(g, N) == [Tl |-> Tup([k \in 1..N |-> Sub(g[k + 1], g[k])]), t0l |-> g]

Lengths(g) == Tup([k \in 1..Len(g) - 1 |-> Sub(g[k + 1], g[k])])

IntegratorGrid(g, N, M) ==
  \* N*M+1 points: t_k + l*(t_{k+1}-t_k)/M
  Tup([i \in 1..N * M + 1 |->
     IF i = N * M + 1 THEN g[N + 1]
     ELSE LET k == ((i - 1) \div M) + 1
              l == (i - 1) % M
          IN Add(g[k], Mul(Q(l, M), Sub(g[k + 1], g[k])))])

(***************************************************************************)
(* Declarative feasibility of a grid-variable assignment (the property):   *)
(* the grid it induces is the declared partition, and every interval       *)
(* length respects min/max.                                                *)
(***************************************************************************)
BoundsOK(G, g) ==
  \A k \in 1..Len(g) - 1 :
     /\ (G.hasmin => Leq(G.min, Sub(g[k + 1], g[k])))
     /\ (G.hasmax => Leq(Sub(g[k + 1], g[k]), G.max))

IsPartition(G, N, t0, T, g) ==
  /\ Eq(g[1], t0)
  /\ Eq(g[N + 1], Add(t0, T))
  /\ IF G.kind = "free"
     THEN \A k \in 1..N : Leq(Zero, Sub(g[k + 1], g[k]))     \* FreeGrid: any ordered partition
     ELSE \A k \in 1..N + 1 : Eq(g[k], Declared(G, N, t0, T)[k])

DeclFeasible(G, N, t0, T, gv) ==
  LET g == ControlGrid(G, N, t0, T, gv)
  IN /\ IsPartition(G, N, t0, T, g)
     /\ (HasTl(G) /\ HasT0l(G) => \A k \in 1..N : Eq(gv.Tl[k], Sub(g[k + 1], g[k])))
     /\ BoundsOK(G, g)

(***************************************************************************)
(* Implementation-shaped construction: the rows the grid classes emit      *)
(* (sampling_method.py bounds_T / bounds_finalize as driven by             *)
(* MultipleShooting.add_constraints).  A row is [rel, lo, e, hi] with      *)
(* rel "eq" (e = 0) or "box" (lo <= e <= hi, haslo/hashi).                 *)
(* Devs is the set of enabled named deviations (Deviations.tla).           *)
(***************************************************************************)
EqRow(e) == [rel |-> "eq", e |-> e, haslo |-> FALSE, lo |-> Zero, hashi |-> FALSE, hi |-> Zero]
BoxRow(G, e) == [rel |-> "box", e |-> e, haslo |-> TRUE, lo |-> IF G.hasmin THEN G.min ELSE Zero,
                 hashi |-> G.hasmax, hi |-> G.max]

TlAt(G, N, T, gv, k) ==   \* T_local[k-1] of the code (1-based k)
  IF G.kind # "free" /\ k = 1 THEN Mul(T, Sub(Normalized(G, N)[2], Normalized(G, N)[1])) ELSE gv.Tl[k]

FixedRows(G, N, t0, T, gv, k) ==   \* FixedGrid.bounds_T for interval k (1-based)
  LET n == Normalized(G, N)
      Tk == IF HasTl(G) THEN TlAt(G, N, T, gv, k) ELSE Mul(T, Sub(n[k + 1], n[k]))
      c1 == IF HasTl(G) /\ G.kind # "free" /\ k + 1 <= N
            THEN <<EqRow(Sub(Mul(TlAt(G, N, T, gv, k), IF G.kind = "geometric" THEN G.r ELSE One),
                             TlAt(G, N, T, gv, k + 1)))>>
            ELSE <<>>
      c2 == IF HasT0l(G)
            THEN <<EqRow(Sub(Add(IF k = 1 THEN t0 ELSE gv.t0l[k], Tk), gv.t0l[k + 1]))>>
            ELSE <<>>
  IN c1 \o c2

AlgRows(G, N, t0, T, gv, k, Devs) ==
  LET fixed == FixedRows(G, N, t0, T, gv, k)
      n == Normalized(G, N)
      bounded == G.hasmin \/ G.hasmax
  IN CASE G.kind = "free" -> <<BoxRow(G, gv.Tl[k])>> \o fixed
       [] G.kind = "uniform" ->
            LET bnd == IF HasTl(G) THEN <<BoxRow(G, TlAt(G, N, T, gv, 1))>>
                       ELSE IF bounded THEN <<BoxRow(G, Mul(T, Q(1, N)))>> ELSE <<>>
            IN IF "UniformBoundsOnlyWhenLocalized" \in Devs
               THEN (IF k = 1 /\ Len(fixed) > 0 THEN fixed \o bnd ELSE fixed)
               ELSE (IF k = 1 THEN fixed \o bnd ELSE fixed)
       [] G.kind = "geometric" ->
            LET first == IF k = 1 THEN <<BoxRow(G, IF HasTl(G) THEN TlAt(G, N, T, gv, 1) ELSE Mul(T, n[2]))>> ELSE <<>>
                last  == IF k = N /\ N > 1 /\ "GeometricLastUnbounded" \notin Devs
                         THEN <<BoxRow(G, IF HasTl(G) THEN TlAt(G, N, T, gv, N) ELSE Mul(T, Sub(n[N + 1], n[N])))>>
                         ELSE <<>>
            IN first \o last \o fixed
       [] G.kind \in {"function", "density"} ->
            (IF bounded /\ "FunctionGridUnbounded" \notin Devs
             THEN <<BoxRow(G, Mul(T, Sub(n[k + 1], n[k])))>> ELSE <<>>) \o fixed

FinalRows(G, N, t0, T, gv) ==
  IF G.kind = "free" THEN <<EqRow(Sub(ControlGrid(G, N, t0, T, gv)[N + 1], Add(t0, T)))>> ELSE <<>>

RECURSIVE AllAlgRowsFrom(_, _, _, _, _, _, _)
AllAlgRowsFrom(G, N, t0, T, gv, k, Devs) ==
  IF k > N THEN FinalRows(G, N, t0, T, gv)
  ELSE AlgRows(G, N, t0, T, gv, k, Devs) \o AllAlgRowsFrom(G, N, t0, T, gv, k + 1, Devs)
AllAlgRows(G, N, t0, T, gv, Devs) ==
  IF "NoCouplingRows" \in Devs THEN FinalRows(G, N, t0, T, gv)   \* a method that never asks the grid for its rows
  ELSE AllAlgRowsFrom(G, N, t0, T, gv, 1, Devs)

RowHolds(r) ==
  IF r.rel = "eq" THEN Eq(r.e, Zero)
  ELSE (r.haslo => Leq(r.lo, r.e)) /\ (r.hashi => Leq(r.e, r.hi))

AlgFeasible(G, N, t0, T, gv, Devs) ==
  LET rows == AllAlgRows(G, N, t0, T, gv, Devs) IN \A i \in 1..Len(rows) : RowHolds(rows[i])
=============================================================================
