----------------------------- MODULE Lifecycle -----------------------------
(***************************************************************************)
(* The cache protocol of the public API over histories (C13; the history   *)
(* quantifiers of C09, C10, C18).                                          *)
(*                                                                         *)
(* decl  : what the user has declared so far (abstract: which catalogue    *)
(*         constraints, how many extra objective terms, horizon, parameter *)
(*         value, guess, method, solver)                                   *)
(* live  : the declaration the cached NLP was built from, updated by the   *)
(*         post-transcription paths of set_value / set_initial; NoLive     *)
(*         before the first transcription                                  *)
(* tflag : the "is transcribed" flag                                       *)
(* dirty : the method object carries state of an earlier transcription     *)
(* out   : outcome of the last call                                        *)
(* sol   : NoSol, or the declaration snapshot of the NLP the most recent   *)
(*         solution object was obtained from, with cur = it still belongs  *)
(*         to the live NLP                                                 *)
(*                                                                         *)
(* One action per public operation.  Devs is the set of enabled *named     *)
(* deviations*: each describes a way in which an implementation departs    *)
(* from the intended protocol; with Devs = {} all invariants must hold.    *)
(***************************************************************************)
EXTENDS Integers, Sequences, FiniteSets, TLC

CONSTANTS Devs

VARIABLES decl, live, tflag, dirty, out, sol
vars == <<decl, live, tflag, dirty, out, sol>>

ConsIds == {"ka", "kb"}
MaxCons == 3            \* the declared constraints form a sequence (declaring one twice yields two copies)
Tvals   == {1, 2}
T0vals  == {0, 1}
Pvals   == {1, 2, 3}
Gvals   == {1, 2}              \* 0 = never given
Meths   == {"MS2", "MS3", "SS2", "DC2"}
Solvers == {"ipopt", "ipopt0", "sqp"}
MaxObj  == 2

NoLive == [none |-> TRUE]

Decl0 == [ext |-> 0, cons |-> <<"k0">>, nobj |-> 0, T |-> 1, t0 |-> 0, pval |-> 1, qval |-> 1, guess |-> 0, meth |-> "MS2", solver |-> "ipopt"]

NoSol == [none |-> TRUE]
Init == /\ decl = Decl0 /\ live = NoLive /\ tflag = FALSE /\ dirty = FALSE /\ out = "ok" /\ sol = NoSol

(* every structural edit invalidates the cache *)
(* the content of an invalidated cache is dead: no public operation can observe it *)
Stale(s) == IF s = NoSol THEN NoSol ELSE [s EXCEPT !.cur = FALSE]
Edit(d) == /\ decl' = d /\ tflag' = FALSE /\ live' = NoLive /\ out' = "ok" /\ sol' = Stale(sol) /\ UNCHANGED dirty
(* an edit that (deviation dev) forgets to invalidate *)
EditDev(d, dev) ==
  IF dev \in Devs THEN /\ decl' = d /\ out' = "ok" /\ UNCHANGED <<live, tflag, dirty, sol>>
  ELSE Edit(d)

SubjectTo(c)     == Len(decl.cons) < MaxCons /\ Edit([decl EXCEPT !.cons = Append(@, c)])
ClearConstraints == Edit([decl EXCEPT !.cons = <<>>])
AddObjective     == decl.nobj < MaxObj /\ Edit([decl EXCEPT !.nobj = @ + 1])
\* a further state with its own dynamics declared late (possibly after a solve)
AddState         == decl.ext = 0 /\ Edit([decl EXCEPT !.ext = 1])
Method(m)        == Edit([decl EXCEPT !.meth = m])
Solver(s)        == EditDev([decl EXCEPT !.solver = s], "Solver_NoInvalidate")
SetT(v)          == EditDev([decl EXCEPT !.T = v], "SetT_NoInvalidate")
SetT0(v)         == EditDev([decl EXCEPT !.t0 = v], "SetT0_NoInvalidate")

(* set_value / set_initial take a different path once transcribed: they update the
   cached NLP in place *and* must remember the value for later re-transcriptions *)
SetValue(v) ==
  /\ IF tflag
     THEN /\ live' = [live EXCEPT !.pval = v]
          /\ decl' = IF "SetValue_NotStored" \in Devs THEN decl ELSE [decl EXCEPT !.pval = v]
     ELSE /\ decl' = [decl EXCEPT !.pval = v] /\ UNCHANGED live
  /\ out' = "ok" /\ UNCHANGED <<tflag, dirty, sol>>

(* set_value on a concatenation of two parameters: both values are assigned *)
SetValueCat(v) ==
  /\ IF tflag
     THEN /\ live' = [live EXCEPT !.pval = v, !.qval = v]
          /\ decl' = IF "SetValue_NotStored" \in Devs THEN decl ELSE [decl EXCEPT !.pval = v, !.qval = v]
     ELSE /\ decl' = [decl EXCEPT !.pval = v, !.qval = v] /\ UNCHANGED live
  /\ out' = "ok" /\ UNCHANGED <<tflag, dirty, sol>>

SetInitial(g) ==
  /\ decl' = [decl EXCEPT !.guess = g]
  /\ live' = IF tflag THEN [live EXCEPT !.guess = g] ELSE live
  /\ out' = "ok" /\ UNCHANGED <<tflag, dirty, sol>>

(* every query / solve first makes sure the cache is current *)
Ensure ==
  IF tflag THEN /\ UNCHANGED <<live, tflag, dirty>> /\ out' = "ok"
  ELSE IF dirty /\ "Retranscribe_Dirty" \in Devs
       THEN /\ UNCHANGED <<live, tflag, dirty>> /\ out' = "raise"
       ELSE /\ live' = decl /\ tflag' = TRUE /\ dirty' = TRUE /\ out' = "ok"

\* a re-transcription detaches earlier solution objects from the live NLP
SolAfterEnsure == IF tflag' /\ ~tflag THEN Stale(sol) ELSE sol
Sample   == Ensure /\ UNCHANGED decl /\ sol' = SolAfterEnsure
Value    == Ensure /\ UNCHANGED decl /\ sol' = SolAfterEnsure
Jacobian == Ensure /\ UNCHANGED decl /\ sol' = SolAfterEnsure
\* the snapshot is only needed to describe the deviation; without deviations it is dropped (smaller state space)
SolRec(d) == [d |-> IF Devs = {} THEN NoLive ELSE d, cur |-> TRUE]
Solve    == Ensure /\ UNCHANGED decl /\ sol' = IF out' = "ok" THEN SolRec(live') ELSE SolAfterEnsure

(* querying through the most recent solution object: it reads the NLP it was obtained from and
   must not take part in the cache protocol; once that NLP is gone the query is rejected *)
SolSample ==
  /\ sol # NoSol
  /\ IF ~tflag /\ "StaleSolRetranscribes" \in Devs
     THEN \* deviation: the stale transcribed copy re-transcribes itself and is mistaken for the current one
          /\ tflag' = TRUE /\ live' = sol.d /\ out' = "ok" /\ sol' = [sol EXCEPT !.cur = TRUE] /\ UNCHANGED <<decl, dirty>>
     ELSE /\ out' = IF sol.cur /\ tflag THEN "ok" ELSE "raise"
          /\ UNCHANGED <<decl, live, tflag, dirty, sol>>

(* save untranscribes the original (allowed: it can be solved again afterwards);
   the loaded copy is a fresh object with the same declaration *)
Save == /\ tflag' = FALSE /\ live' = NoLive /\ dirty' = FALSE /\ out' = "ok" /\ sol' = Stale(sol) /\ UNCHANGED decl

Next == \/ \E c \in ConsIds : SubjectTo(c)
        \/ ClearConstraints
        \/ AddObjective \/ AddState
        \/ \E m \in Meths : Method(m)
        \/ \E s \in Solvers : Solver(s)
        \/ \E v \in Tvals : SetT(v)
        \/ \E v \in T0vals : SetT0(v)
        \/ \E v \in Pvals : SetValue(v)
        \/ \E v \in {2, 3} : SetValueCat(v)
        \/ \E g \in Gvals : SetInitial(g)
        \/ Sample \/ Value \/ Jacobian \/ Solve \/ SolSample
        \/ Save

Spec == Init /\ [][Next]_vars

(***************************************************************************)
(* Properties                                                              *)
(***************************************************************************)
ConsSeqs == UNION {[1..n -> ConsIds \cup {"k0"}] : n \in 0..MaxCons}
TypeOK == /\ decl \in [ext : {0, 1}, cons : ConsSeqs, nobj : 0..MaxObj, T : Tvals, t0 : T0vals, pval : Pvals, qval : Pvals,
                       guess : {0} \cup Gvals, meth : Meths, solver : Solvers]
          /\ tflag \in BOOLEAN /\ dirty \in BOOLEAN /\ out \in {"ok", "raise"}
          /\ (tflag <=> live # NoLive)

(* C13.a / C09.b / C10.f : whatever the history, a current cache is the NLP of the declaration *)
CacheCurrent == tflag => live = decl

(* C13.d : a change after a solve is honoured or rejected -- never a raise on a well-posed edit *)
NeverRaises == out = "ok" \/ (sol # NoSol /\ ~(sol.cur /\ tflag))   \* only a query through an outdated solution may be rejected

(* C13.b : querying / solving twice changes nothing *)
QueriesIdempotent == [][(tflag /\ (Sample \/ Value \/ Jacobian \/ Solve)) => UNCHANGED <<decl, live, tflag>>]_vars

(* C13.c : transcribing never alters the declaration *)
DeclUntouched == [][(Sample \/ Value \/ Jacobian \/ Solve \/ Save) => decl' = decl]_vars

(* C09.b : set_value replaces that parameter's value only *)
SetValueLocal == [][\A v \in Pvals : SetValue(v) =>
                      /\ decl' = [decl EXCEPT !.pval = v]
                      /\ (tflag => live' = [live EXCEPT !.pval = v])]_vars
=============================================================================
