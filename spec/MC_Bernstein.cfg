INIT Init
NEXT Next
INVARIANT Hull
INVARIANT Elevation
CHECK_DEADLOCK FALSE
