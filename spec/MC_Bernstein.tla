---------------------------- MODULE MC_Bernstein ----------------------------
(***************************************************************************)
(* C15 on the specification: the convex-hull property of the Bernstein     *)
(* form.  For every polynomial p of degree <= 8 from a rational family and  *)
(* every tau on a mesh of [0,1]:  min_i b_i <= p(tau) <= max_i b_i  with b  *)
(* = ToBernstein(p); b_1 = p(0), b_last = p(1); and the conversion is       *)
(* consistent with degree elevation (padding the power form with zeros      *)
(* keeps the polynomial).  Hence "all Bernstein coefficients of e(x(.)) -   *)
(* bound <= 0" (what Nlp!InfRows predicts and the conformance check finds   *)
(* in the NLP) implies the bound at every time of the step.                 *)
(***************************************************************************)
EXTENDS RatPoly, TLC
VARIABLES p
Coefs == {R(-2), R(-1), Zero, Q(1, 2), R(3)}
Polys == UNION {[1..n -> Coefs] : n \in 1..5}
\* products and squares of family members reach degree 8
Init == p \in Polys \cup {PMul(a, a) : a \in [1..3 -> Coefs]} \cup {PMul(PMul(a, a), PMul(a, a)) : a \in [1..3 -> {R(-1), Q(1, 2), R(2)}]}
Next == UNCHANGED p
Mesh == {Q(i, 8) : i \in 0..8} \cup {Q(1, 3), Q(2, 3)}
LeqC(a, b) == IsBad(a) \/ IsBad(b) \/ IsBad(Sub(a, b)) \/ Leq(a, b)      \* BAD arithmetic is inconclusive, never a verdict
MinB(b) == CHOOSE x \in {b[i] : i \in 1..Len(b)} : \A j \in 1..Len(b) : Leq(x, b[j])
MaxB(b) == CHOOSE x \in {b[i] : i \in 1..Len(b)} : \A j \in 1..Len(b) : Leq(b[j], x)
Hull == LET b == ToBernstein(p)
        IN /\ \A tau \in Mesh : LeqC(MinB(b), PEval(p, tau)) /\ LeqC(PEval(p, tau), MaxB(b))
           /\ Eq(b[1], PEval(p, Zero)) /\ Eq(b[Len(b)], PEval(p, One))
Elevation == LET q == p \o <<Zero, Zero>>
                 b == ToBernstein(q)
             IN \A tau \in Mesh : LeqC(MinB(b), PEval(p, tau)) /\ LeqC(PEval(p, tau), MaxB(b))
=============================================================================
