INIT CInit
NEXT CNext
CONSTANT Devs <- NoDevs
INVARIANT CacheCurrent
PROPERTY AnswersCurrent
CONSTRAINT Bound
CHECK_DEADLOCK FALSE
