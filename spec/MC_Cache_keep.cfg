INIT CInit
NEXT CNext
CONSTANT Devs <- DevKeep
INVARIANT CacheCurrent
CONSTRAINT Bound
CHECK_DEADLOCK FALSE
