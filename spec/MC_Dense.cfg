INIT Init
NEXT Next
INVARIANT Endpoints
INVARIANT InitialSlope
INVARIANT PolynomialExact
INVARIANT CollocationThrough
CHECK_DEADLOCK FALSE
