------------------------------ MODULE MC_Dense ------------------------------
(***************************************************************************)
(* C08 on the specification: properties of the per-step dense output.       *)
(* For rk and expl_euler on scalar test right-hand sides (state-dependent   *)
(* and time-dependent): the polynomial starts at the step's start state,    *)
(* ends at its end state, has initial slope f(x, t); it reproduces exact    *)
(* solutions that are polynomials of degree <= 2 (rk) / <= 1 (Euler) at     *)
(* every time of the step.  For collocation (radau 1,2; legendre 1) the     *)
(* Lagrange interpolant passes through the start and helper states.         *)
(***************************************************************************)
EXTENDS RatPoly, Schemes, TLC
VARIABLE c
Init == c \in [a : {R(-1), Q(1, 2), R(2)}, b : {Zero, One, R(-3)}, lam : {Zero, Q(1, 2), R(-2)}, x : {One, Q(-3, 2)}, t : {Zero, Q(1, 2)}, h : {Q(1, 2), One, R(2)}]
Next == UNCHANGED c
\* x' = lam x + a + b t
F(x, t) == <<Add(Add(Mul(c.lam, x[1]), c.a), Mul(c.b, t))>>
RK == StepRK(F, 1, <<c.x>>, c.t, c.h)
EU == StepEuler(F, 1, <<c.x>>, c.t, c.h)
Ok(a, b) == IsBad(a) \/ IsBad(b) \/ Eq(a, b)
Endpoints == /\ Ok(PolyVec(RK.coef, Zero)[1], c.x) /\ Ok(PolyVec(RK.coef, c.h)[1], RK.xf[1])
             /\ Ok(PolyVec(EU.coef, Zero)[1], c.x) /\ Ok(PolyVec(EU.coef, c.h)[1], EU.xf[1])
InitialSlope == Ok(RK.coef[2][1], F(<<c.x>>, c.t)[1]) /\ Ok(EU.coef[2][1], F(<<c.x>>, c.t)[1])
\* exact solution for lam = 0: x + a s + b (t s + s^2/2)
Exact(s) == Add(c.x, Add(Mul(c.a, s), Mul(c.b, Add(Mul(c.t, s), Mul(Q(1, 2), Mul(s, s))))))
Mesh == {Mul(c.h, Q(i, 4)) : i \in 0..4}
PolynomialExact == /\ (c.lam = Zero => \A s \in Mesh : Ok(PolyVec(RK.coef, s)[1], Exact(s)))
                   /\ (c.lam = Zero /\ c.b = Zero => \A s \in Mesh : Ok(PolyVec(EU.coef, s)[1], Exact(s)))
\* collocation interpolant through start and helper values
Interp(tau, vals, s) == SumSeq(Tup([r \in 1..Len(vals) |-> Mul(PEval(Lagrange(TauRoot(tau), r), s), vals[r])]))
CollocationThrough ==
  \A tau \in {<<One>>, <<Q(1, 3), One>>, <<Q(1, 2)>>} :
     LET vals == <<c.x>> \o Tup([j \in 1..Len(tau) |-> Add(c.a, R(j))])
     IN /\ Ok(Interp(tau, vals, Zero), c.x)
        /\ \A j \in 1..Len(tau) : Ok(Interp(tau, vals, tau[j]), vals[j + 1])
=============================================================================
