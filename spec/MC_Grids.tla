------------------------------ MODULE MC_Grids ------------------------------
(***************************************************************************)
(* C06 on the specification alone: for every grid class / formulation /    *)
(* bound, N <= 4, rational t0, T and every assignment of the grid          *)
(* variables from a rational set around the consistent one, the rows the   *)
(* implementation-shaped construction emits hold exactly when the grid is  *)
(* the declared partition within its bounds; and the declared grids are    *)
(* partitions with the class-specific spacing.                             *)
(***************************************************************************)
EXTENDS Grids, TLC, IOUtils
CONSTANTS Devs
VARIABLES cfg, gv
NoDevs == {}
OldDevs == {"UniformBoundsOnlyWhenLocalized", "GeometricLastUnbounded", "FunctionGridUnbounded"}
NoCoupling == {"NoCouplingRows"}

FunNodes(N) == CASE N = 1 -> <<Zero, One>> [] N = 2 -> <<Zero, Q(1, 4), One>>
                 [] N = 3 -> <<Zero, Q(1, 4), Q(1, 2), One>> [] N = 4 -> <<Zero, Q(1, 8), Q(1, 4), Q(1, 2), One>>
Base(kind, N) == CASE kind = "uni" -> Uniform [] kind = "geo" -> Geometric(R(2), N, FALSE)
                   [] kind = "geoL" -> Geometric(R(3), N, TRUE) [] kind = "fun" -> FunctionG(FunNodes(N)) [] kind = "free" -> FreeG
Thorough == IOEnv.VERIF_TIER = "thorough"
Cfgs == {c \in [kind : {"uni", "geo", "geoL", "fun", "free"}, N : 1..(IF Thorough THEN 4 ELSE 3), lt0 : BOOLEAN, lT : BOOLEAN,
                bnd : {"none", "min", "max"}, bv : IF Thorough THEN {Q(1, 4), Q(1, 2), One, R(2)} ELSE {Q(1, 2), One},
                t0 : IF Thorough THEN {Zero, Q(-1, 2)} ELSE {Q(-1, 2)}, T : IF Thorough THEN {R(2), R(3)} ELSE {R(2)}] :
            /\ (c.kind \in {"fun", "free"} => ~c.lt0 /\ ~c.lT)
            /\ (c.bnd = "none" => c.bv = One)}
GOf(c) == LET G0 == WithLocal(Base(c.kind, c.N), c.lt0, c.lT)
          IN CASE c.bnd = "none" -> G0 [] c.bnd = "min" -> WithMin(G0, c.bv) [] c.bnd = "max" -> WithMax(G0, c.bv)
Consistent(c) == GvOf(IF c.kind = "free" THEN CumSum(c.t0, Tup([k \in 1..c.N |-> Mul(c.T, Q(IF k % 2 = 1 THEN 1 ELSE 2, (3 * c.N - (c.N % 2)) \div 2))]), 1)
                      ELSE Declared(GOf(c), c.N, c.t0, c.T), c.N)
Deltas == {Zero, Q(1, 2), Q(-1, 4)}
\* perturb at most one T_local and one t0_local entry
Gvs(c) == LET g0 == Consistent(c)
          IN {[Tl |-> Tup([k \in 1..c.N |-> IF k = i THEN Add(g0.Tl[k], d1) ELSE g0.Tl[k]]),
               t0l |-> Tup([k \in 1..c.N + 1 |-> IF k = j THEN Add(g0.t0l[k], d2) ELSE g0.t0l[k]])] :
                 i \in 1..c.N, j \in 2..c.N + 1, d1 \in Deltas, d2 \in Deltas}

Init == cfg \in Cfgs /\ gv \in Gvs(cfg)
Next == UNCHANGED <<cfg, gv>>

\* only the grid variables the formulation really has can be perturbed meaningfully
Relevant == LET G == GOf(cfg) g0 == Consistent(cfg)
            IN /\ (~HasTl(G) => gv.Tl = g0.Tl) /\ (~HasT0l(G) => gv.t0l = g0.t0l)
               /\ (HasTl(G) /\ G.kind # "free" => gv.Tl[1] = g0.Tl[1])

RowsCharacterise ==
  Relevant => (AlgFeasible(GOf(cfg), cfg.N, cfg.t0, cfg.T, gv, Devs) <=> DeclFeasible(GOf(cfg), cfg.N, cfg.t0, cfg.T, gv))

\* the declared grids themselves: start, end, strictly increasing, class-specific spacing, M equal sub-steps
DeclaredIsPartition ==
  LET G == GOf(cfg) N == cfg.N g == Declared(G, N, cfg.t0, cfg.T) L == Lengths(g)
  IN /\ Eq(g[1], cfg.t0) /\ Eq(g[N + 1], Add(cfg.t0, cfg.T))
     /\ \A k \in 1..N : Less(Zero, L[k])
     /\ (G.kind = "uniform" => \A k \in 1..N : Eq(L[k], L[1]))
     /\ (G.kind = "geometric" /\ G.local => \A k \in 1..N - 1 : Eq(L[k + 1], Mul(G.growth, L[k])))
     /\ (G.kind = "geometric" /\ ~G.local /\ N > 1 => /\ Eq(L[N], Mul(G.growth, L[1]))
                                                      /\ \A k \in 1..N - 2 : Eq(Mul(L[k + 1], L[k + 1]), Mul(L[k], L[k + 2])))
     /\ \A M \in 1..3 : LET ig == IntegratorGrid(g, N, M)
                        IN /\ \A k \in 1..N : Eq(ig[(k - 1) * M + 1], g[k])
                           /\ Eq(ig[N * M + 1], g[N + 1])
                           /\ \A k \in 1..N, l \in 1..M : Eq(Sub(ig[(k - 1) * M + l + 1], ig[(k - 1) * M + l]), Mul(L[k], Q(1, M)))
=============================================================================
