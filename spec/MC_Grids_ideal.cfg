INIT Init
NEXT Next
CONSTANT Devs <- NoDevs
INVARIANT RowsCharacterise
INVARIANT DeclaredIsPartition
CHECK_DEADLOCK FALSE
