INIT Init
NEXT Next
CONSTANT Devs <- NoCoupling
INVARIANT RowsCharacterise
INVARIANT DeclaredIsPartition
CHECK_DEADLOCK FALSE
