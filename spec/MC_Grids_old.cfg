INIT Init
NEXT Next
CONSTANT Devs <- OldDevs
INVARIANT RowsCharacterise
INVARIANT DeclaredIsPartition
CHECK_DEADLOCK FALSE
