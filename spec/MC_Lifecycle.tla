---------------------------- MODULE MC_Lifecycle ----------------------------
(* Bounded model-checking instance of Lifecycle: exhaustive over all reachable states
   (the state space is finite: 4*3*2*2*3*3*4*3 declarations x caches). *)
EXTENDS Lifecycle
NoDevs == {}
AsIsDevs == {"SetT_NoInvalidate", "SetT0_NoInvalidate", "Solver_NoInvalidate", "SetValue_NotStored", "Retranscribe_Dirty"}
StaleSolDevs == {"StaleSolRetranscribes"}
=============================================================================
