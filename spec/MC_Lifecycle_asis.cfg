SPECIFICATION Spec
CONSTANT Devs <- AsIsDevs
INVARIANT TypeOK
INVARIANT CacheCurrent
INVARIANT NeverRaises
CHECK_DEADLOCK FALSE
