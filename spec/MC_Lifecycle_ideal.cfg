SPECIFICATION Spec
CONSTANT Devs <- NoDevs
INVARIANT TypeOK
INVARIANT CacheCurrent
INVARIANT NeverRaises
PROPERTY QueriesIdempotent
PROPERTY DeclUntouched
PROPERTY SetValueLocal
CHECK_DEADLOCK FALSE
