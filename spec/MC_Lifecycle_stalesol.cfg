SPECIFICATION Spec
CONSTANT Devs <- StaleSolDevs
INVARIANT TypeOK
INVARIANT CacheCurrent
INVARIANT NeverRaises
CHECK_DEADLOCK FALSE
