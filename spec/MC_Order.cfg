INIT Init
NEXT Next
INVARIANT RKExact
INVARIANT EulerExact
INVARIANT QuadratureOrder
INVARIANT CollocationOrders
INVARIANT CollocationQuadrature
CHECK_DEADLOCK FALSE
