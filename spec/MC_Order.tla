------------------------------ MODULE MC_Order ------------------------------
(***************************************************************************)
(* C03 on the specification: the schemes the specification defines (and    *)
(* which C01/C02 bind to the code) have their classical orders.            *)
(*  - Linear test equation x' = lambda x: one step multiplies x by the     *)
(*    stability function R(z), z = lambda h.  rk: R = Taylor polynomial of *)
(*    exp of degree 4; expl_euler: degree 1.  Collocation (radau d=1,2,    *)
(*    legendre d=1): the step is obtained by *solving the collocation rows *)
(*    of the specification* (Cramer's rule) and R(z) = P(z)/Q(z) must      *)
(*    agree with exp(z) through order 2d-1 (radau) / 2d (legendre):        *)
(*    P(z) - Q(z) T_p(z) = O(z^(p+1)) and not O(z^(p+2)).                  *)
(*  - Time quadrature x' = t^m: rk exact for m <= 3, error ratio 16 at     *)
(*    m = 4 when the step is halved; Euler exact for m = 0, ratio 2 at     *)
(*    m = 1.                                                               *)
(***************************************************************************)
EXTENDS RatPoly, Schemes, TLC
VARIABLE c
Lams == {Q(1, 2), R(-1), R(2), Q(-3, 2)}
Hs == {Q(1, 2), One, Q(1, 4)}
Init == c \in [lam : Lams, h : Hs, x : {One, Q(-3, 2)}, m : 0..4]
Next == UNCHANGED c
Fact(n) == IF n = 0 THEN 1 ELSE IF n = 1 THEN 1 ELSE IF n = 2 THEN 2 ELSE IF n = 3 THEN 6 ELSE IF n = 4 THEN 24 ELSE 120
TaylorExp(p) == Tup([i \in 1..p + 1 |-> Q(1, Fact(i - 1))])
\* explicit schemes on x' = lam x
RKExact == LET z == Mul(c.lam, c.h) IN StepRK(LAMBDA x, t : <<Mul(c.lam, x[1])>>, 1, <<c.x>>, Zero, c.h).xf[1] = Mul(c.x, PEval(TaylorExp(4), z))
EulerExact == LET z == Mul(c.lam, c.h) IN StepEuler(LAMBDA x, t : <<Mul(c.lam, x[1])>>, 1, <<c.x>>, Zero, c.h).xf[1] = Mul(c.x, PEval(TaylorExp(1), z))
\* time quadrature x' = t^m on [t0, t0+h] with t0 = 1/2, one step vs two half steps
ExactT(m, a, b) == Mul(Q(1, m + 1), Sub(Pow(b, m + 1), Pow(a, m + 1)))
OneStep(S(_, _, _), a, h) == S(<<Zero>>, a, h).xf[1]
TwoSteps(S(_, _, _), a, h) == LET h2 == Mul(h, Q(1, 2)) x1 == S(<<Zero>>, a, h2).xf IN S(x1, Add(a, h2), h2).xf[1]
RKs(x, t, h) == StepRK(LAMBDA xx, tt : <<Pow(tt, c.m)>>, 1, x, t, h)
EUs(x, t, h) == StepEuler(LAMBDA xx, tt : <<Pow(tt, c.m)>>, 1, x, t, h)
QuadratureOrder ==
  LET a == Q(1, 2)
      ex == ExactT(c.m, a, Add(a, c.h))
      e1 == Sub(OneStep(RKs, a, c.h), ex)
      e2 == Sub(TwoSteps(RKs, a, c.h), ex)
      f1 == Sub(OneStep(EUs, a, c.h), ex)
      f2 == Sub(TwoSteps(EUs, a, c.h), ex)
  IN /\ (c.m <= 3 => Eq(e1, Zero))
     /\ (c.m = 4 => ~Eq(e1, Zero) /\ Eq(e1, Mul(R(16), e2)))       \* local error ~ h^5: two half steps gain 2*(1/2)^5 = 1/16
     /\ (c.m = 0 => Eq(f1, Zero))
     /\ (c.m = 1 => ~Eq(f1, Zero) /\ Eq(f1, Mul(R(2), f2)))
(***************************************************************************)
(* collocation on x' = lam x, one step of length h from x: unknown helper  *)
(* states k_1..k_d solve  sum_r C[r][j] Xc[r] = z Xc[j+1]  (Xc[1] = x);     *)
(* the end value is sum_r D[r] Xc[r].  Solved symbolically in z: numerator *)
(* and denominator polynomials by Cramer's rule for d <= 2.                *)
(***************************************************************************)
Stab(tau) ==
  LET d == Len(tau) cC == CollC(tau) cD == CollD(tau)
  IN IF d = 1
     THEN \* (C[2][1] - z) k1 = -C[1][1]        (x = 1)
          LET den == <<cC[2][1], R(-1)>>        \* polynomial in z
              k1n == <<Neg(cC[1][1])>>
          IN [P |-> PAdd(PScale(cD[1], den), PScale(cD[2], k1n)), Q |-> den]
     ELSE \* rows j = 1, 2:  (C[2][j] - z [j=1]) k1 + (C[3][j] - z [j=2]) k2 = -C[1][j]
          LET a11 == <<cC[2][1], R(-1)>> a12 == <<cC[3][1]>> b1 == <<Neg(cC[1][1])>>
              a21 == <<cC[2][2]>> a22 == <<cC[3][2], R(-1)>> b2 == <<Neg(cC[1][2])>>
              det == PSub(PMul(a11, a22), PMul(a12, a21))
              k1n == PSub(PMul(b1, a22), PMul(a12, b2))
              k2n == PSub(PMul(a11, b2), PMul(b1, a21))
          IN [P |-> PAdd(PAdd(PScale(cD[1], det), PScale(cD[2], k1n)), PScale(cD[3], k2n)), Q |-> det]
\* order p: P - Q*T_{p+1} vanishes through z^p and not at z^(p+1)
OrderOf(tau, p) ==
  LET s == Stab(tau)
      r == PSub(s.P, PMul(s.Q, TaylorExp(p + 1)))
  IN /\ \A i \in 1..p + 1 : Eq(PCoef(r, i), Zero)
     /\ ~Eq(PCoef(r, p + 2), Zero)
CollocationOrders == /\ OrderOf(<<One>>, 1)                 \* radau d=1: 2d-1 = 1
                     /\ OrderOf(<<Q(1, 3), One>>, 3)        \* radau d=2: 3
                     /\ OrderOf(<<Q(1, 2)>>, 2)             \* legendre d=1: 2d = 2
\* quadrature weights of the collocation points integrate polynomials up to the expected degree exactly
WeightsExact(tau, deg) == \A m \in 0..deg : Eq(SumSeq(Tup([j \in 1..Len(tau) |-> Mul(CollB(tau)[j], Pow(tau[j], m))])), Q(1, m + 1))
CollocationQuadrature == WeightsExact(<<One>>, 0) /\ WeightsExact(<<Q(1, 3), One>>, 2) /\ WeightsExact(<<Q(1, 2)>>, 1)
                         /\ ~WeightsExact(<<One>>, 1) /\ ~WeightsExact(<<Q(1, 3), One>>, 3) /\ ~WeightsExact(<<Q(1, 2)>>, 2)
=============================================================================
