SPECIFICATION Spec
INVARIANT Reproduces
PROPERTY Isolated
CHECK_DEADLOCK FALSE
