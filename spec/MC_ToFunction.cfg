SPECIFICATION Spec
INVARIANT Reproduces
PROPERTY Isolated
PROPERTY FreshSnapshot
CHECK_DEADLOCK FALSE
