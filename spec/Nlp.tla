-------------------------------- MODULE Nlp --------------------------------
(***************************************************************************)
(* The meaning of a declaration: Transcribe / evaluate.                    *)
(*                                                                         *)
(* World(d, pr) computes, for a declaration d (see Catalog.tla for the     *)
(* record layout) and a probe pr (values of the input ingredients: node    *)
(* states, controls, variables, free horizon, grid variables), every       *)
(* derived quantity of the transcription in exact rationals.               *)
(* Predict(d, pr) turns it into the observation record the harness         *)
(* compares with the real NLP.                                             *)
(***************************************************************************)
EXTENDS Expr, Grids, Schemes, RatPoly, TLC, FiniteSets

NX(d) == Len(d.states)
NU(d) == Len(d.controls)
NZ(d) == Len(d.algs)
NQ(d) == Len(d.quads)
NP(d) == Len(d.params)
NV(d) == Len(d.vars)

(* value of symbol kind "g" (global), "c" (per interval), "cp" (per interval
   plus final node) at node k (0..N); on interval k (0..N-1) pass k. *)
Col(kind, vals, k, N) ==
  CASE kind = "g"  -> vals[1]
    [] kind = "c"  -> vals[Min2(k, N - 1) + 1]
    [] kind = "cp" -> vals[k + 1]

ParVec(d, k, N) == Tup([i \in 1..NP(d) |-> Col(d.params[i].kind, d.params[i].val, k, N)])
VarVec(d, pr, k, N) == Tup([i \in 1..NV(d) |-> Col(d.vars[i].kind, pr.V[i], k, N)])

Horizon(h, d, free) ==     \* h = d.t0 or d.T ; free = probe value if it is a decision variable
  CASE h.kind = "num"  -> h.v
    [] h.kind = "free" -> free
    [] h.kind = "par"  -> d.params[h.i].val[1]

StageEnv(d, x, u, z, p, v, t, T, t0, h, hc) ==
  [x |-> x, u |-> u, z |-> z, p |-> p, v |-> v, q |-> <<>>, t |-> t, T |-> T, t0 |-> t0, DT |-> h, DTc |-> hc]

RECURSIVE SumVecs(_, _, _)
SumVecs(vs, i, acc) == IF i > Len(vs) THEN acc ELSE SumVecs(vs, i + 1, VAdd(acc, vs[i]))
SumSeq2(vs, n) == SumVecs(vs, 1, VZero(n))

(* one control interval of a shooting method, k = 0..N-1, from start state x *)
ShootInterval(d, pr, N, M, T, t0, g, k, x) ==
  LET u == pr.U[k + 1]
      p == ParVec(d, k, N)
      v == VarVec(d, pr, k, N)
      es == d.rhs \o d.quads
      F(xx, t) == EvalVec(es, StageEnv(d, xx, u, <<>>, p, v, t, T, t0, Zero, Zero))
      G(xx, t, h, hc) == EvalVec(es, StageEnv(d, xx, u, <<>>, p, v, t, T, t0, h, hc))
      nx == NX(d)
      hc == Sub(g[k + 2], g[k + 1])
      S(xx, t, h) == CASE d.dyn = "next" -> StepNext(G, nx, xx, t, h, hc)
                       [] d.method.intg = "rk" -> StepRK(F, nx, xx, t, h)
                       [] d.method.intg = "expl_euler" -> StepEuler(F, nx, xx, t, h)
      r == Propagate(S, x, VZero(NQ(d)), g[k + 1], hc, M)
  IN [xs |-> r.xs, qs |-> r.qs, coefs |-> r.coefs, coefqs |-> r.coefqs, xf |-> r.xf, qf |-> r.qf,
      zs |-> Tup([l \in 1..M |-> <<>>]), roots |-> <<>>, zf |-> <<>>]

RECURSIVE SSChain(_, _, _, _, _, _, _, _, _)
SSChain(d, pr, N, M, T, t0, g, k, acc) ==   \* acc = sequence of interval results so far
  IF k = N THEN acc
  ELSE LET x == IF k = 0 THEN pr.X[1] ELSE acc[k].xf
       IN SSChain(d, pr, N, M, T, t0, g, k + 1, Append(acc, ShootInterval(d, pr, N, M, T, t0, g, k, x)))

(***************************************************************************)
(* Direct collocation (C02).  tau: collocation nodes of the scheme; the     *)
(* coefficient matrices are *derived* here from tau by Lagrange             *)
(* interpolation (RatPoly), not copied from CasADi.                         *)
(* Probe ingredients: pr.X node states, pr.XI[k][l] start state of          *)
(* integrator step l >= 2 of interval k, pr.XR[k][l][j] helper states,      *)
(* pr.ZR[k][l][j] algebraic values at the collocation times.                *)
(***************************************************************************)
Tau(scheme, deg) ==
  CASE scheme = "radau" /\ deg = 1 -> <<One>>
    [] scheme = "radau" /\ deg = 2 -> <<Q(1, 3), One>>
    [] scheme = "legendre" /\ deg = 1 -> <<Q(1, 2)>>

RECURSIVE CumQSeq(_, _, _)
CumQSeq(qs, i, q) == IF i > Len(qs) THEN <<>> ELSE <<q>> \o CumQSeq(qs, i + 1, VAdd(q, qs[i]))

DCInterval(d, pr, N, M, T, t0, g, k) ==
  LET m == d.method
      tau == Tau(m.scheme, m.degree)
      deg == m.degree
      cC == CollC(tau)
      cD == CollD(tau)
      cB == CollB(tau)
      u == pr.U[k + 1]
      p == ParVec(d, k, N)
      v == VarVec(d, pr, k, N)
      nx == NX(d)
      hc == Sub(g[k + 2], g[k + 1])
      dt == Mul(hc, Q(1, M))
      xstart(l) == IF l = 1 THEN pr.X[k + 1] ELSE pr.XI[k + 1][l]
      xnext(l) == IF l = M THEN pr.X[k + 2] ELSE pr.XI[k + 1][l + 1]
      tstep(l) == Add(g[k + 1], Mul(R(l - 1), dt))
      step(l) ==
        LET Xc == <<xstart(l)>> \o pr.XR[k + 1][l]            \* deg+1 state vectors
            Zc == pr.ZR[k + 1][l]                              \* deg algebraic vectors
            tr == Tup([j \in 1..deg |-> Add(tstep(l), Mul(dt, tau[j]))])
            env(j) == StageEnv(d, Xc[j + 1], u, Zc[j], p, v, tr[j], T, t0, dt, hc)
            pidot(j) == VScale(Inv(dt), Tup([i \in 1..nx |-> SumSeq(Tup([r \in 1..deg + 1 |-> Mul(Xc[r][i], cC[r][j])]))]))
            f(j) == EvalVec(d.rhs, env(j))
        IN [xr |-> pr.XR[k + 1][l], zr |-> Zc, tr |-> tr,
            colloc |-> Tup([j \in 1..deg |-> Tup([i \in 1..nx |-> Div(Sub(pidot(j)[i], f(j)[i]), d.states[i].dscale)])]),
            alg |-> Tup([j \in 1..deg |-> Tup([i \in 1..Len(d.alg) |-> Div(Eval(d.alg[i], env(j)), d.algs[i].scale)])]),
            cont |-> Tup([i \in 1..nx |-> Div(Sub(SumSeq(Tup([r \in 1..deg + 1 |-> Mul(Xc[r][i], cD[r])])), xnext(l)[i]), d.states[i].scale)]),
            quad |-> Tup([qi \in 1..NQ(d) |-> SumSeq(Tup([j \in 1..deg |-> Mul(Mul(Eval(d.quads[qi], env(j)), dt), cB[j])]))]),
            \* z at the start of the step: the interpolant of the root values extrapolated to tau = 0
            z0 |-> Tup([i \in 1..NZ(d) |-> SumSeq(Tup([j \in 1..deg |-> Mul(ZInterp(tau, Zero)[j], Zc[j][i])]))]),
            z1 |-> Tup([i \in 1..NZ(d) |-> SumSeq(Tup([j \in 1..deg |-> Mul(ZInterp(tau, One)[j], Zc[j][i])]))])]
      steps == Tup([l \in 1..M |-> step(l)])
      quads == Tup([l \in 1..M |-> steps[l].quad])
  IN [xs |-> Tup([l \in 1..M |-> xstart(l)]), zs |-> Tup([l \in 1..M |-> steps[l].z0]),
      qs |-> CumQSeq(quads, 1, VZero(NQ(d))), coefs |-> <<>>, coefqs |-> <<>>,
      xf |-> pr.X[k + 2], qf |-> SumSeq2(quads, NQ(d)), roots |-> steps, zf |-> steps[M].z1]

RECURSIVE CumQ(_, _, _)
CumQ(res, k, q) == IF k > Len(res) THEN <<q>> ELSE <<q>> \o CumQ(res, k + 1, VAdd(q, res[k].qf))

World(d, pr) ==
  LET m == d.method
      N == m.N
      M == m.M
      t0 == Horizon(d.t0, d, pr.t0)
      T == Horizon(d.T, d, pr.T)
      g == ControlGrid(m.grid, N, t0, T, pr.gv)
      res == CASE m.kind = "MS" -> Tup([k \in 1..N |-> ShootInterval(d, pr, N, M, T, t0, g, k - 1, pr.X[k])])
               [] m.kind = "SS" -> SSChain(d, pr, N, M, T, t0, g, 0, <<>>)
               [] m.kind = "DC" -> Tup([k \in 1..N |-> DCInterval(d, pr, N, M, T, t0, g, k - 1)])
      Xn == IF m.kind \in {"MS", "DC"} THEN pr.X
            ELSE Tup([k \in 1..N + 1 |-> IF k = 1 THEN pr.X[1] ELSE res[k - 1].xf])
  IN [d |-> d, pr |-> pr, N |-> N, M |-> M, t0 |-> t0, T |-> T, g |-> g,
      ig |-> IntegratorGrid(g, N, M), res |-> res, X |-> Xn,
      Q |-> CumQ(res, 1, VZero(NQ(d))),
      \* algebraic values at the nodes (DC): start of each interval, end of the last
      Zn |-> Tup([k \in 1..N + 1 |-> IF NZ(d) = 0 THEN <<>> ELSE IF k <= N THEN res[k].zs[1] ELSE res[N].zf])]

Len_(W, k) == Sub(W.g[k + 2], W.g[k + 1])       \* length of control interval k (0-based)

EnvNode(W, k) ==          \* node k = 0..N
  LET kk == Min2(k, W.N - 1)
  IN [x |-> W.X[k + 1], u |-> W.pr.U[kk + 1], z |-> W.Zn[k + 1],
      p |-> ParVec(W.d, k, W.N), v |-> VarVec(W.d, W.pr, k, W.N),
      q |-> W.Q[k + 1], t |-> W.g[k + 1], T |-> W.T, t0 |-> W.t0,
      DT |-> Mul(Len_(W, kk), Q(1, W.M)), DTc |-> Len_(W, kk)]

EnvIntg(W, k, l) ==       \* integrator point l = 0..M-1 of interval k = 0..N-1
  [x |-> W.res[k + 1].xs[l + 1], u |-> W.pr.U[k + 1], z |-> W.res[k + 1].zs[l + 1],
   p |-> ParVec(W.d, k, W.N), v |-> VarVec(W.d, W.pr, k, W.N),
   q |-> VAdd(W.Q[k + 1], W.res[k + 1].qs[l + 1]),
   t |-> W.ig[k * W.M + l + 1], T |-> W.T, t0 |-> W.t0,
   DT |-> Mul(Len_(W, k), Q(1, W.M)), DTc |-> Len_(W, k)]

EnvRoot(W, k, l, j) ==    \* collocation time j = 1..deg of step l = 0..M-1 of interval k
  LET st == W.res[k + 1].roots[l + 1]
  IN [x |-> st.xr[j], u |-> W.pr.U[k + 1], z |-> st.zr[j],
      p |-> ParVec(W.d, k, W.N), v |-> VarVec(W.d, W.pr, k, W.N), q |-> <<>>,
      t |-> st.tr[j], T |-> W.T, t0 |-> W.t0,
      DT |-> Mul(Len_(W, k), Q(1, W.M)), DTc |-> Len_(W, k)]

EnvNS(W) ==               \* non-signal context: only global quantities are meaningful
  [x |-> <<>>, u |-> <<>>, z |-> <<>>, p |-> ParVec(W.d, 0, W.N), v |-> VarVec(W.d, W.pr, 0, W.N),
   q |-> <<>>, t |-> BAD, T |-> W.T, t0 |-> W.t0, DT |-> BAD, DTc |-> BAD]

(* evaluation with placeholders; k = node index of the current point (for offsets) *)
RECURSIVE EvalW(_, _, _, _)
EvalW(e, W, env, k) ==
  CASE IsLeafOp(e.op) /\ e.op # "int" -> Eval(e, env)
    [] e.op = "int"   -> W.Q[W.N + 1][e.i]
    [] e.op = "add"   -> Add(EvalW(e.a, W, env, k), EvalW(e.b, W, env, k))
    [] e.op = "sub"   -> Sub(EvalW(e.a, W, env, k), EvalW(e.b, W, env, k))
    [] e.op = "mul"   -> Mul(EvalW(e.a, W, env, k), EvalW(e.b, W, env, k))
    [] e.op = "neg"   -> Neg(EvalW(e.a, W, env, k))
    [] e.op = "sq"    -> LET w == EvalW(e.a, W, env, k) IN Mul(w, w)
    [] e.op = "at_t0" -> EvalW(e.a, W, EnvNode(W, 0), 0)
    [] e.op = "at_tf" -> EvalW(e.a, W, EnvNode(W, W.N), W.N)
    [] e.op = "off"   -> EvalW(e.a, W, EnvNode(W, k + e.o), k + e.o)
    [] e.op = "sum"   -> SumSeq(Tup([kk \in 1..W.N |-> EvalW(e.a, W, EnvNode(W, kk - 1), kk - 1)]))
    [] e.op = "sump"  -> SumSeq(Tup([kk \in 1..W.N + 1 |-> EvalW(e.a, W, EnvNode(W, kk - 1), kk - 1)]))
    [] e.op = "intc"  -> SumSeq(Tup([kk \in 1..W.N |-> Mul(Len_(W, kk - 1), EvalW(e.a, W, EnvNode(W, kk - 1), kk - 1))]))

(***************************************************************************)
(* Constraint placement (C04): the declared instances of a path constraint *)
(* A point is [k, l] : node k (l = 0) or integrator point (k, l).          *)
(***************************************************************************)
\* rel "vle": vector-valued  lhs[i] <= rhs[i]  (c.lhs, c.rhs sequences of expressions; c.vscale element-wise scales)
ConsExprs(c) == IF c.rel = "box" THEN <<c.lo, c.lhs, c.hi>> ELSE IF c.rel = "vle" THEN c.lhs \o c.rhs ELSE IF c.rel = "vbox" THEN c.lhs ELSE <<c.lhs, c.rhs>>
ConsOffsets(c) == UNION {Offsets(ConsExprs(c)[i]) : i \in 1..Len(ConsExprs(c))}

DeclaredPoints(c, N, M, deg) ==
  CASE c.grid = "control" ->
         {[k |-> k, l |-> 0, j |-> 0] : k \in {kk \in 0..N : /\ (kk = 0 => c.incF) /\ (kk = N => c.incL)
                                                     /\ \A o \in ConsOffsets(c) : kk + o \in 0..N}}
    [] c.grid = "integrator" ->
         {pt \in ({[k |-> k, l |-> l, j |-> 0] : k \in 0..N - 1, l \in 0..M - 1} \cup {[k |-> N, l |-> 0, j |-> 0]}) :
              /\ (pt.k = 0 /\ pt.l = 0 => c.incF) /\ (pt.k = N => c.incL)}
    [] c.grid = "roots" -> {[k |-> k, l |-> l, j |-> j] : k \in 0..N - 1, l \in 0..M - 1, j \in 1..deg}
    [] c.grid = "point" -> {[k |-> -1, l |-> 0, j |-> 0]}
    [] c.grid = "inf" -> {}

(* the loops of MultipleShooting / SingleShooting.add_constraints, with the
   IndexError drop rule of eval_at_control (k = -1 stands for the final node) *)
EmittedPoints(c, N, M, deg, Devs) ==
  CASE c.grid = "control" ->
         {[k |-> k, l |-> 0, j |-> 0] : k \in {kk \in 0..N - 1 : /\ (kk = 0 => c.incF)
                                         /\ \A o \in ConsOffsets(c) : kk + o >= 0 /\ kk + o <= N}}
         \cup (IF c.incL /\ \A o \in ConsOffsets(c) :
                     /\ o <= 0
                     /\ (IF "DropPrevAtFinalNode" \in Devs THEN -1 + o >= 0 ELSE N + o >= 0)
               THEN {[k |-> N, l |-> 0, j |-> 0]} ELSE {})
    [] c.grid = "integrator" ->
         {pt \in {[k |-> k, l |-> l, j |-> 0] : k \in 0..N - 1, l \in 0..M - 1} : (pt.k = 0 /\ pt.l = 0 => c.incF)}
         \cup (IF c.incL THEN {[k |-> N, l |-> 0, j |-> 0]} ELSE {})
    [] c.grid = "roots" -> {[k |-> k, l |-> l, j |-> j] : k \in 0..N - 1, l \in 0..M - 1, j \in 1..deg}
    [] c.grid = "point" -> {[k |-> -1, l |-> 0, j |-> 0]}
    [] c.grid = "inf" -> {}

EnvAt(W, pt) ==
  IF pt.k = -1 THEN EnvNS(W)
  ELSE IF pt.j > 0 THEN EnvRoot(W, pt.k, pt.l, pt.j)
  ELSE IF pt.l = 0 THEN EnvNode(W, pt.k)
  ELSE EnvIntg(W, pt.k, pt.l)

RECURSIVE FlatFrom(_, _)
FlatFrom(ss, i) == IF i > Len(ss) THEN <<>> ELSE ss[i] \o FlatFrom(ss, i + 1)
Flat(ss) == FlatFrom(ss, 1)

(* slacks of one instance, divided by the constraint scale; equalities: residual *)
Slacks(c, W, pt) ==
  LET env == EnvAt(W, pt)
      ev(e) == EvalW(e, W, env, pt.k)
      s == c.scale
  IN CASE c.rel = "le"  -> <<Div(Sub(ev(c.rhs), ev(c.lhs)), s)>>
       [] c.rel = "ge"  -> <<Div(Sub(ev(c.lhs), ev(c.rhs)), s)>>
       [] c.rel = "eq"  -> <<Div(Sub(ev(c.lhs), ev(c.rhs)), s)>>
       [] c.rel = "box" -> <<Div(Sub(ev(c.lhs), ev(c.lo)), s), Div(Sub(ev(c.hi), ev(c.lhs)), s)>>
       [] c.rel = "vle" -> Tup([i \in 1..Len(c.lhs) |-> Div(Sub(ev(c.rhs[i]), ev(c.lhs[i])), c.vscale[i])])
       \* an infinite bound is no row side at all; every finite one is, entry by entry
       [] c.rel = "vbox" -> Flat(Tup([i \in 1..Len(c.lhs) |->
                                  (IF c.lo[i].op = "inf" THEN <<>> ELSE <<Div(Sub(ev(c.lhs[i]), ev(c.lo[i])), s)>>)
                                  \o (IF c.hi[i].op = "inf" THEN <<>> ELSE <<Div(Sub(ev(c.hi[i]), ev(c.lhs[i])), s)>>)]))

SetToSeq(S) == IF S = {} THEN <<>> ELSE LET RECURSIVE H(_) H(SS) == IF SS = {} THEN <<>> ELSE LET x == CHOOSE y \in SS : TRUE IN <<x>> \o H(SS \ {x}) IN H(S)

(* W2 is the world of a second probe that differs in every ingredient: an instance whose slacks
   coincide in both does not depend on any decision variable ("const"); the implementation may
   legitimately omit such a row when it is satisfied (CasADi folds it to a true constant). *)
PredictCons(W, W2) ==
  Tup([ci \in 1..Len(W.d.cons) |->
     LET c == W.d.cons[ci]
         pts == SetToSeq(DeclaredPoints(c, W.N, W.M, W.d.method.degree))
     IN [cid |-> c.cid, rel |-> c.rel,
         inst |-> Tup([pi \in 1..Len(pts) |->
                     LET s1 == Slacks(c, W, pts[pi]) IN
                     [k |-> pts[pi].k, l |-> pts[pi].l, j |-> pts[pi].j, s |-> s1,
                      const |-> ~VBad(s1) /\ s1 = Slacks(c, W2, pts[pi])]])]])

PredictGaps(W) ==
  IF W.d.method.kind = "MS"
  THEN Tup([k \in 1..W.N |-> Tup([i \in 1..NX(W.d) |-> Div(Sub(W.X[k + 1][i], W.res[k].xf[i]), W.d.states[i].scale)])])
  ELSE IF W.d.method.kind = "DC"
  THEN Tup([k \in 1..W.N |->
          LET st == W.res[k].roots
              flat(l) == st[l].cont \o Flat(st[l].colloc) \o Flat(st[l].alg)
          IN Flat(Tup([l \in 1..W.M |-> flat(l)]))])
  ELSE <<>>

PredictObj(W) == SumSeq(Tup([i \in 1..Len(W.d.obj) |-> EvalW(W.d.obj[i], W, EnvNS(W), -1)]))

(* read-backs: sample / value of expressions *)
PredictRead(W, r) ==
  CASE r.kind = "value" -> [t |-> <<>>, v |-> <<EvalW(r.e, W, EnvNS(W), -1)>>]
    [] r.kind = "sample" /\ r.grid = "control" ->
         [t |-> W.g, v |-> Tup([k \in 1..W.N + 1 |-> EvalW(r.e, W, EnvNode(W, k - 1), k - 1)])]
    [] r.kind = "sample" /\ r.grid = "control-" ->
         [t |-> SubSeq(W.g, 1, W.N), v |-> Tup([k \in 1..W.N |-> EvalW(r.e, W, EnvNode(W, k - 1), k - 1)])]
    [] r.kind = "sample" /\ r.grid = "integrator" ->
         [t |-> W.ig,
          v |-> Tup([i \in 1..W.N * W.M + 1 |->
                   IF i = W.N * W.M + 1 THEN EvalW(r.e, W, EnvNode(W, W.N), W.N)
                   ELSE EvalW(r.e, W, EnvIntg(W, (i - 1) \div W.M, (i - 1) % W.M), -1)])]

\* all sampling points of a grid option, as point records
GridPoints(W, grid) ==
  CASE grid = "control"    -> Tup([k \in 1..W.N + 1 |-> [k |-> k - 1, l |-> 0, j |-> 0]])
    [] grid = "control-"   -> Tup([k \in 1..W.N |-> [k |-> k - 1, l |-> 0, j |-> 0]])
    [] grid = "integrator" -> Tup([i \in 1..W.N * W.M + 1 |->
                                 IF i = W.N * W.M + 1 THEN [k |-> W.N, l |-> 0, j |-> 0]
                                 ELSE [k |-> (i - 1) \div W.M, l |-> (i - 1) % W.M, j |-> 0]])
    [] grid = "roots"      -> LET deg == W.d.method.degree
                              IN Tup([i \in 1..W.N * W.M * deg |->
                                   [k |-> (i - 1) \div (W.M * deg), l |-> ((i - 1) \div deg) % W.M, j |-> ((i - 1) % deg) + 1]])
EnvPt(W, pt) == IF pt.j > 0 THEN EnvRoot(W, pt.k, pt.l, pt.j)
                ELSE IF pt.l = 0 THEN EnvNode(W, pt.k) ELSE EnvIntg(W, pt.k, pt.l)
TimeOf(W, pt) == EnvPt(W, pt).t
EvalMat(es, W, env, k) == Tup([r \in 1..Len(es) |-> Tup([c \in 1..Len(es[r]) |-> EvalW(es[r][c], W, env, k)])])

(***************************************************************************)
(* Dense output (C08): one polynomial per integrator step.                 *)
(* Shooting: the coefficient vectors of Schemes (rk: quartic, Euler:       *)
(* line).  Collocation: the Lagrange interpolant through the step's start  *)
(* state and helper states.  StateAt(W, k, l, s) is the state at local     *)
(* time s in [0, dt] of step l of interval k.                              *)
(***************************************************************************)
StepLen(W, k) == Mul(Len_(W, k), Q(1, W.M))
StateAt(W, k, l, s) ==
  IF W.d.method.kind = "DC"
  THEN LET st == W.res[k + 1].roots[l + 1]
           tr == TauRoot(Tau(W.d.method.scheme, W.d.method.degree))
           Xc == <<W.res[k + 1].xs[l + 1]>> \o st.xr
           w == Tup([r \in 1..Len(tr) |-> PEval(Lagrange(tr, r), Div(s, StepLen(W, k)))])
       IN Tup([i \in 1..NX(W.d) |-> SumSeq(Tup([r \in 1..Len(tr) |-> Mul(w[r], Xc[r][i])]))])
  ELSE PolyVec(W.res[k + 1].coefs[l + 1], s)

\* algebraic variables between the collocation times: the interpolant through the step's collocation values
ZAt(W, k, l, s) ==
  LET st == W.res[k + 1].roots[l + 1]
      tau == Tau(W.d.method.scheme, W.d.method.degree)
      w == ZInterp(tau, Div(s, StepLen(W, k)))
  IN Tup([i \in 1..NZ(W.d) |-> SumSeq(Tup([j \in 1..Len(tau) |-> Mul(w[j], st.zr[j][i])]))])
\* quadrature states between integrator points (explicit schemes): value at the start of the step plus the integrated
\* dense output of the integrand,  s * (c1 + c2 s + c3 s^2 + ...)
QAt(W, k, l, s) ==
  LET c == W.res[k + 1].coefqs[l + 1]
  IN VAdd(VAdd(W.Q[k + 1], W.res[k + 1].qs[l + 1]), VScale(s, PolyVec(c, s)))
EnvDense(W, k, l, s) ==
  [EnvIntg(W, k, l) EXCEPT !.x = StateAt(W, k, l, s), !.t = Add(W.ig[k * W.M + l + 1], s),
                           !.q = IF W.d.method.kind # "DC" /\ NQ(W.d) > 0 /\ W.d.dyn = "ode" THEN QAt(W, k, l, s) ELSE @,
                           !.z = IF W.d.method.kind = "DC" /\ NZ(W.d) > 0 THEN ZAt(W, k, l, s) ELSE @]
\* the very last sample: end of the last step's polynomial, final-node values of everything else
EnvDenseEnd(W) ==
  [EnvNode(W, W.N) EXCEPT !.x = StateAt(W, W.N - 1, W.M - 1, StepLen(W, W.N - 1))]

PredictRefine(W, r) ==
  LET rf == r.refine
      n == W.N * W.M * rf
      pt(i) == [k |-> (i - 1) \div (W.M * rf), l |-> ((i - 1) \div rf) % W.M, j |-> (i - 1) % rf]
      sOf(i) == Mul(StepLen(W, pt(i).k), Q(pt(i).j, rf))
  IN [t |-> Tup([i \in 1..n + 1 |-> IF i = n + 1 THEN W.g[W.N + 1] ELSE Add(W.ig[pt(i).k * W.M + pt(i).l + 1], sOf(i))]),
      v |-> Tup([i \in 1..n + 1 |-> IF i = n + 1 THEN Eval(r.e, EnvDenseEnd(W))
                                    ELSE Eval(r.e, EnvDense(W, pt(i).k, pt(i).l, sOf(i)))])]

\* sampler(e)(gist, t): query times are given as (step index 1..N*M, fraction of the step in [0,1])
PredictSampler(W, r) ==
  LET q == r.tq
      kOf(i) == (q[i][1] - 1) \div W.M
      lOf(i) == (q[i][1] - 1) % W.M
      sOf(i) == Mul(StepLen(W, kOf(i)), q[i][2])
  IN [t |-> Tup([i \in 1..Len(q) |-> Add(W.ig[q[i][1]], sOf(i))]),
      v |-> Tup([i \in 1..Len(q) |-> Eval(r.e, EnvDense(W, kOf(i), lOf(i), sOf(i)))])]

(***************************************************************************)
(* grid='inf' constraints (C15).  On step (k,l) the state trajectory is    *)
(* the polynomial x(dt*tau), tau in [0,1], dt the length of *that* step.   *)
(* A polynomial constraint e(x) <= b is imposed through the Bernstein      *)
(* coefficients of p(tau) = e(x(dt*tau)) on [0,1]: all of them <= b.  By   *)
(* the convex-hull property (MC_Bernstein.tla) this is sufficient for      *)
(* p(tau) <= b on the whole step.                                          *)
(***************************************************************************)
\* state polynomials in tau (power basis), one per state, from the dense-output coefficients
StatePolys(W, k, l) ==
  LET c == W.res[k + 1].coefs[l + 1]
      dt == StepLen(W, k)
  IN Tup([i \in 1..NX(W.d) |-> Tup([j \in 1..Len(c) |-> Mul(c[j][i], Pow(dt, j - 1))])])

\* polynomial of an expression over states / parameters / constants; inf_der(x_i) = d/dt of the state polynomial
RECURSIVE PolyOf(_, _, _, _)
PolyOf(e, xp, env, dt) ==
  CASE e.op = "x"   -> xp[e.i]
    [] e.op = "dx"  -> PScale(Inv(dt), PDer(xp[e.i]))
    [] e.op = "add" -> PAdd(PolyOf(e.a, xp, env, dt), PolyOf(e.b, xp, env, dt))
    [] e.op = "sub" -> PSub(PolyOf(e.a, xp, env, dt), PolyOf(e.b, xp, env, dt))
    [] e.op = "mul" -> PMul(PolyOf(e.a, xp, env, dt), PolyOf(e.b, xp, env, dt))
    [] e.op = "neg" -> PScale(R(-1), PolyOf(e.a, xp, env, dt))
    [] e.op = "sq"  -> LET q == PolyOf(e.a, xp, env, dt) IN PMul(q, q)
    [] OTHER        -> <<Eval(e, env)>>          \* constants, parameters, controls, time: constant on the step

InfRows(W, c) ==
  \* one group per integrator step: the Bernstein coefficients of lhs - rhs (for "le") must be <= 0
  Flat(Tup([i \in 1..W.N * W.M |->
     LET k == (i - 1) \div W.M
         l == (i - 1) % W.M
         env == EnvNode(W, k)
         dt == StepLen(W, k)
         xp == StatePolys(W, k, l)
         p == IF c.rel = "le" THEN PSub(PolyOf(c.rhs, xp, env, dt), PolyOf(c.lhs, xp, env, dt))
              ELSE PSub(PolyOf(c.lhs, xp, env, dt), PolyOf(c.rhs, xp, env, dt))
     IN ToBernstein(p)]))

PredictInf(W) ==
  LET idx == {ci \in 1..Len(W.d.cons) : W.d.cons[ci].grid = "inf"}
  IN Tup([n \in 1..Cardinality(idx) |->
        LET ci == CHOOSE x \in idx : Cardinality({y \in idx : y < x}) = n - 1
        IN [cid |-> W.d.cons[ci].cid, s |-> Tup([j \in 1..Len(InfRows(W, W.d.cons[ci])) |-> Div(InfRows(W, W.d.cons[ci])[j], W.d.cons[ci].scale)])]])

PredictReadR(W, r) ==
  IF r.kind = "refine" THEN PredictRefine(W, r)
  ELSE IF r.kind = "sampler" THEN PredictSampler(W, r)
  ELSE IF r.kind = "msample"
  THEN LET pts == GridPoints(W, r.grid)
       IN [t |-> Tup([i \in 1..Len(pts) |-> TimeOf(W, pts[i])]),
           v |-> Tup([i \in 1..Len(pts) |-> EvalMat(r.es, W, EnvPt(W, pts[i]), IF pts[i].l = 0 /\ pts[i].j = 0 THEN pts[i].k ELSE -1)])]
  ELSE IF r.kind = "mvalue"
  THEN [t |-> <<>>, v |-> <<EvalMat(r.es, W, EnvNS(W), -1)>>]
  ELSE IF r.kind = "sample" /\ r.grid = "roots"
  THEN LET deg == W.d.method.degree
           n == W.N * W.M * deg
           pt(i) == [k |-> (i - 1) \div (W.M * deg), l |-> ((i - 1) \div deg) % W.M, j |-> ((i - 1) % deg) + 1]
       IN [t |-> Tup([i \in 1..n |-> W.res[pt(i).k + 1].roots[pt(i).l + 1].tr[pt(i).j]]),
           v |-> Tup([i \in 1..n |-> EvalW(r.e, W, EnvRoot(W, pt(i).k, pt(i).l, pt(i).j), -1)])]
  ELSE PredictRead(W, r)

(***************************************************************************)
(* Starting point (C10): the physical start value of every decision        *)
(* variable as a function of the ordered list of guesses d.init.           *)
(* A guess is [sym : leaf, form : "const" | "expr" | "cols", e : Expr in   *)
(* t / T / t0, vals : sequence of rationals].  The last guess for a symbol *)
(* wins; anything never given starts at zero.                              *)
(***************************************************************************)
NoGuess == [form |-> "none"]
LastGuess(d, op, i) ==
  LET idxs == {n \in 1..Len(d.init) : d.init[n].sym.op = op /\ (op \in {"T", "t0"} \/ d.init[n].sym.i = i)}
  IN IF idxs = {} THEN NoGuess ELSE d.init[CHOOSE n \in idxs : \A m \in idxs : m <= n]

TimeEnv(t, T, t0) == [x |-> <<>>, u |-> <<>>, z |-> <<>>, p |-> <<>>, v |-> <<>>, q |-> <<>>,
                      t |-> t, T |-> T, t0 |-> t0, DT |-> BAD, DTc |-> BAD]
GuessAt(g, t, col, T, t0) ==
  CASE g.form = "none"  -> Zero
    [] g.form = "const" -> g.vals[1]
    [] g.form = "expr"  -> Eval(g.e, TimeEnv(t, T, t0))
    [] g.form = "cols"  -> IF col <= Len(g.vals) THEN g.vals[col] ELSE BAD

StartHorizon(h, d, op) ==
  CASE h.kind = "num"  -> h.v
    [] h.kind = "par"  -> d.params[h.i].val[1]
    [] h.kind = "free" -> LET g == LastGuess(d, op, 0) IN IF g.form = "none" THEN h.v ELSE g.vals[1]

StartOf(d) ==
  LET m == d.method
      N == m.N
      M == m.M
      t0 == StartHorizon(d.t0, d, "t0")
      T == StartHorizon(d.T, d, "T")
      \* the guessed grid: the grid class's own nodes for the guessed horizon (FreeGrid: uniform)
      g == Declared(m.grid, N, t0, T)
      ig == IntegratorGrid(g, N, M)
      deg == m.degree
      tau == IF m.kind = "DC" THEN Tau(m.scheme, deg) ELSE <<>>
      gx(i) == LastGuess(d, "x", i)
      gz(i) == LastGuess(d, "z", i)
  IN [T |-> T, t0 |-> t0, grid |-> g,
      X |-> Tup([k \in 1..N + 1 |-> Tup([i \in 1..NX(d) |-> GuessAt(gx(i), g[k], k, T, t0)])]),
      U |-> Tup([k \in 1..N |-> Tup([i \in 1..NU(d) |-> GuessAt(LastGuess(d, "u", i), g[k], k, T, t0)])]),
      V |-> Tup([i \in 1..NV(d) |-> Tup([c \in 1..(CASE d.vars[i].kind = "g" -> 1 [] d.vars[i].kind = "c" -> N [] OTHER -> N + 1) |->
                  GuessAt(LastGuess(d, "v", i), g[c], c, T, t0)])]),
      \* direct collocation helper states: integrator points and collocation times (time expressions and constants only)
      XI |-> IF m.kind # "DC" THEN <<>> ELSE
             Tup([k \in 1..N |-> Tup([l \in 1..M |-> Tup([i \in 1..NX(d) |->
                  IF gx(i).form = "cols" THEN BAD ELSE GuessAt(gx(i), ig[(k - 1) * M + l], 1, T, t0)])])]),
      XR |-> IF m.kind # "DC" THEN <<>> ELSE
             Tup([k \in 1..N |-> Tup([l \in 1..M |-> Tup([j \in 1..deg |-> Tup([i \in 1..NX(d) |->
                  IF gx(i).form = "cols" THEN BAD
                  ELSE GuessAt(gx(i), Add(ig[(k - 1) * M + l], Mul(Mul(Sub(g[k + 1], g[k]), Q(1, M)), tau[j])), 1, T, t0)])])])]),
      ZR |-> IF m.kind # "DC" THEN <<>> ELSE
             Tup([k \in 1..N |-> Tup([l \in 1..M |-> Tup([j \in 1..deg |-> Tup([i \in 1..NZ(d) |->
                  IF gz(i).form = "cols" THEN BAD
                  ELSE GuessAt(gz(i), Add(ig[(k - 1) * M + l], Mul(Mul(Sub(g[k + 1], g[k]), Q(1, M)), tau[j])), 1, T, t0)])])])]),
      gv |-> GvOf(g, N)]

(* C11: a free horizon adds exactly the row T >= 0 *)
TPos(d, W) == [present |-> d.T.kind = "free", slack |-> W.T]

(* C14: the scale of every solver variable *)
Scales(d) == [x |-> Tup([i \in 1..NX(d) |-> d.states[i].scale]), u |-> Tup([i \in 1..NU(d) |-> d.controls[i].scale]),
              z |-> Tup([i \in 1..NZ(d) |-> d.algs[i].scale]), v |-> Tup([i \in 1..NV(d) |-> d.vars[i].scale])]

Predict(d, pr, pr2) ==
  LET W == World(d, pr)
      W2 == World(d, pr2)
  IN [grid |-> W.g, igrid |-> W.ig, T |-> W.T, t0 |-> W.t0,
      X |-> W.X,
      gridfeas |-> DeclFeasible(d.method.grid, W.N, W.t0, W.T, pr.gv),
      start |-> StartOf(d), tpos |-> TPos(d, W), scales |-> Scales(d),
      gaps |-> PredictGaps(W),
      cons |-> PredictCons(W, W2), inf |-> PredictInf(W),
      f |-> PredictObj(W),
      reads |-> Tup([i \in 1..Len(d.reads) |-> PredictReadR(W, d.reads[i])])]
=============================================================================
