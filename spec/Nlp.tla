-------------------------------- MODULE Nlp --------------------------------
(***************************************************************************)
(* The meaning of a declaration: Transcribe / evaluate.                    *)
(*                                                                         *)
(* World(d, pr) computes, for a declaration d (see Catalog.tla for the     *)
(* record layout) and a probe pr (values of the input ingredients: node    *)
(* states, controls, variables, free horizon, grid variables), every       *)
(* derived quantity of the transcription in exact rationals.               *)
(* Predict(d, pr) turns it into the observation record the harness         *)
(* compares with the real NLP.                                             *)
(***************************************************************************)
EXTENDS Expr, Grids, Schemes, TLC

NX(d) == Len(d.states)
NU(d) == Len(d.controls)
NZ(d) == Len(d.algs)
NQ(d) == Len(d.quads)
NP(d) == Len(d.params)
NV(d) == Len(d.vars)

(* value of symbol kind "g" (global), "c" (per interval), "cp" (per interval
   plus final node) at node k (0..N); on interval k (0..N-1) pass k. *)
Col(kind, vals, k, N) ==
  CASE kind = "g"  -> vals[1]
    [] kind = "c"  -> vals[Min2(k, N - 1) + 1]
    [] kind = "cp" -> vals[k + 1]

ParVec(d, k, N) == [i \in 1..NP(d) |-> Col(d.params[i].kind, d.params[i].val, k, N)]
VarVec(d, pr, k, N) == [i \in 1..NV(d) |-> Col(d.vars[i].kind, pr.V[i], k, N)]

Horizon(h, d, free) ==     \* h = d.t0 or d.T ; free = probe value if it is a decision variable
  CASE h.kind = "num"  -> h.v
    [] h.kind = "free" -> free
    [] h.kind = "par"  -> d.params[h.i].val[1]

StageEnv(d, x, u, z, p, v, t, T, t0, h, hc) ==
  [x |-> x, u |-> u, z |-> z, p |-> p, v |-> v, q |-> <<>>, t |-> t, T |-> T, t0 |-> t0, DT |-> h, DTc |-> hc]

(* one control interval of a shooting method, k = 0..N-1, from start state x *)
ShootInterval(d, pr, N, M, T, t0, g, k, x) ==
  LET u == pr.U[k + 1]
      p == ParVec(d, k, N)
      v == VarVec(d, pr, k, N)
      es == d.rhs \o d.quads
      F(xx, t) == EvalVec(es, StageEnv(d, xx, u, <<>>, p, v, t, T, t0, Zero, Zero))
      G(xx, t, h, hc) == EvalVec(es, StageEnv(d, xx, u, <<>>, p, v, t, T, t0, h, hc))
      nx == NX(d)
      hc == Sub(g[k + 2], g[k + 1])
      S(xx, t, h) == CASE d.dyn = "next" -> StepNext(G, nx, xx, t, h, hc)
                       [] d.method.intg = "rk" -> StepRK(F, nx, xx, t, h)
                       [] d.method.intg = "expl_euler" -> StepEuler(F, nx, xx, t, h)
  IN Propagate(S, x, VZero(NQ(d)), g[k + 1], hc, M)

RECURSIVE SSChain(_, _, _, _, _, _, _, _, _)
SSChain(d, pr, N, M, T, t0, g, k, acc) ==   \* acc = sequence of interval results so far
  IF k = N THEN acc
  ELSE LET x == IF k = 0 THEN pr.X[1] ELSE acc[k].xf
       IN SSChain(d, pr, N, M, T, t0, g, k + 1, Append(acc, ShootInterval(d, pr, N, M, T, t0, g, k, x)))

RECURSIVE CumQ(_, _, _)
CumQ(res, k, q) == IF k > Len(res) THEN <<q>> ELSE <<q>> \o CumQ(res, k + 1, VAdd(q, res[k].qf))

World(d, pr) ==
  LET m == d.method
      N == m.N
      M == m.M
      t0 == Horizon(d.t0, d, pr.t0)
      T == Horizon(d.T, d, pr.T)
      g == ControlGrid(m.grid, N, t0, T, pr.gv)
      res == IF m.kind = "MS"
             THEN [k \in 1..N |-> ShootInterval(d, pr, N, M, T, t0, g, k - 1, pr.X[k])]
             ELSE SSChain(d, pr, N, M, T, t0, g, 0, <<>>)
      Xn == IF m.kind = "MS" THEN pr.X
            ELSE [k \in 1..N + 1 |-> IF k = 1 THEN pr.X[1] ELSE res[k - 1].xf]
  IN [d |-> d, pr |-> pr, N |-> N, M |-> M, t0 |-> t0, T |-> T, g |-> g,
      ig |-> IntegratorGrid(g, N, M), res |-> res, X |-> Xn,
      Q |-> CumQ(res, 1, VZero(NQ(d)))]

Len_(W, k) == Sub(W.g[k + 2], W.g[k + 1])       \* length of control interval k (0-based)

EnvNode(W, k) ==          \* node k = 0..N
  LET kk == Min2(k, W.N - 1)
  IN [x |-> W.X[k + 1], u |-> W.pr.U[kk + 1], z |-> <<>>,
      p |-> ParVec(W.d, k, W.N), v |-> VarVec(W.d, W.pr, k, W.N),
      q |-> W.Q[k + 1], t |-> W.g[k + 1], T |-> W.T, t0 |-> W.t0,
      DT |-> Mul(Len_(W, kk), Q(1, W.M)), DTc |-> Len_(W, kk)]

EnvIntg(W, k, l) ==       \* integrator point l = 0..M-1 of interval k = 0..N-1
  [x |-> W.res[k + 1].xs[l + 1], u |-> W.pr.U[k + 1], z |-> <<>>,
   p |-> ParVec(W.d, k, W.N), v |-> VarVec(W.d, W.pr, k, W.N),
   q |-> VAdd(W.Q[k + 1], W.res[k + 1].qs[l + 1]),
   t |-> W.ig[k * W.M + l + 1], T |-> W.T, t0 |-> W.t0,
   DT |-> Mul(Len_(W, k), Q(1, W.M)), DTc |-> Len_(W, k)]

EnvNS(W) ==               \* non-signal context: only global quantities are meaningful
  [x |-> <<>>, u |-> <<>>, z |-> <<>>, p |-> ParVec(W.d, 0, W.N), v |-> VarVec(W.d, W.pr, 0, W.N),
   q |-> <<>>, t |-> BAD, T |-> W.T, t0 |-> W.t0, DT |-> BAD, DTc |-> BAD]

(* evaluation with placeholders; k = node index of the current point (for offsets) *)
RECURSIVE EvalW(_, _, _, _)
EvalW(e, W, env, k) ==
  CASE IsLeafOp(e.op) /\ e.op # "int" -> Eval(e, env)
    [] e.op = "int"   -> W.Q[W.N + 1][e.i]
    [] e.op = "add"   -> Add(EvalW(e.a, W, env, k), EvalW(e.b, W, env, k))
    [] e.op = "sub"   -> Sub(EvalW(e.a, W, env, k), EvalW(e.b, W, env, k))
    [] e.op = "mul"   -> Mul(EvalW(e.a, W, env, k), EvalW(e.b, W, env, k))
    [] e.op = "neg"   -> Neg(EvalW(e.a, W, env, k))
    [] e.op = "sq"    -> LET w == EvalW(e.a, W, env, k) IN Mul(w, w)
    [] e.op = "at_t0" -> EvalW(e.a, W, EnvNode(W, 0), 0)
    [] e.op = "at_tf" -> EvalW(e.a, W, EnvNode(W, W.N), W.N)
    [] e.op = "off"   -> EvalW(e.a, W, EnvNode(W, k + e.o), k + e.o)
    [] e.op = "sum"   -> SumSeq([kk \in 1..W.N |-> EvalW(e.a, W, EnvNode(W, kk - 1), kk - 1)])
    [] e.op = "sump"  -> SumSeq([kk \in 1..W.N + 1 |-> EvalW(e.a, W, EnvNode(W, kk - 1), kk - 1)])
    [] e.op = "intc"  -> SumSeq([kk \in 1..W.N |-> Mul(Len_(W, kk - 1), EvalW(e.a, W, EnvNode(W, kk - 1), kk - 1))])

(***************************************************************************)
(* Constraint placement (C04): the declared instances of a path constraint *)
(* A point is [k, l] : node k (l = 0) or integrator point (k, l).          *)
(***************************************************************************)
ConsExprs(c) == IF c.rel = "box" THEN <<c.lo, c.lhs, c.hi>> ELSE <<c.lhs, c.rhs>>
ConsOffsets(c) == UNION {Offsets(ConsExprs(c)[i]) : i \in 1..Len(ConsExprs(c))}

DeclaredPoints(c, N, M) ==
  CASE c.grid = "control" ->
         {[k |-> k, l |-> 0] : k \in {kk \in 0..N : /\ (kk = 0 => c.incF) /\ (kk = N => c.incL)
                                                     /\ \A o \in ConsOffsets(c) : kk + o \in 0..N}}
    [] c.grid = "integrator" ->
         {pt \in ({[k |-> k, l |-> l] : k \in 0..N - 1, l \in 0..M - 1} \cup {[k |-> N, l |-> 0]}) :
              /\ (pt.k = 0 /\ pt.l = 0 => c.incF) /\ (pt.k = N => c.incL)}
    [] c.grid = "point" -> {[k |-> -1, l |-> 0]}

(* the loops of MultipleShooting / SingleShooting.add_constraints, with the
   IndexError drop rule of eval_at_control (k = -1 stands for the final node) *)
EmittedPoints(c, N, M, Devs) ==
  CASE c.grid = "control" ->
         {[k |-> k, l |-> 0] : k \in {kk \in 0..N - 1 : /\ (kk = 0 => c.incF)
                                         /\ \A o \in ConsOffsets(c) : kk + o >= 0 /\ kk + o <= N}}
         \cup (IF c.incL /\ \A o \in ConsOffsets(c) :
                     /\ o <= 0
                     /\ (IF "DropPrevAtFinalNode" \in Devs THEN -1 + o >= 0 ELSE N + o >= 0)
               THEN {[k |-> N, l |-> 0]} ELSE {})
    [] c.grid = "integrator" ->
         {pt \in {[k |-> k, l |-> l] : k \in 0..N - 1, l \in 0..M - 1} : (pt.k = 0 /\ pt.l = 0 => c.incF)}
         \cup (IF c.incL THEN {[k |-> N, l |-> 0]} ELSE {})
    [] c.grid = "point" -> {[k |-> -1, l |-> 0]}

EnvAt(W, pt) ==
  IF pt.k = -1 THEN EnvNS(W)
  ELSE IF pt.l = 0 THEN EnvNode(W, pt.k)
  ELSE EnvIntg(W, pt.k, pt.l)

(* slacks of one instance, divided by the constraint scale; equalities: residual *)
Slacks(c, W, pt) ==
  LET env == EnvAt(W, pt)
      ev(e) == EvalW(e, W, env, pt.k)
      s == c.scale
  IN CASE c.rel = "le"  -> <<Div(Sub(ev(c.rhs), ev(c.lhs)), s)>>
       [] c.rel = "ge"  -> <<Div(Sub(ev(c.lhs), ev(c.rhs)), s)>>
       [] c.rel = "eq"  -> <<Div(Sub(ev(c.lhs), ev(c.rhs)), s)>>
       [] c.rel = "box" -> <<Div(Sub(ev(c.lhs), ev(c.lo)), s), Div(Sub(ev(c.hi), ev(c.lhs)), s)>>

SetToSeq(S) == IF S = {} THEN <<>> ELSE LET RECURSIVE H(_) H(SS) == IF SS = {} THEN <<>> ELSE LET x == CHOOSE y \in SS : TRUE IN <<x>> \o H(SS \ {x}) IN H(S)

(* W2 is the world of a second probe that differs in every ingredient: an instance whose slacks
   coincide in both does not depend on any decision variable ("const"); the implementation may
   legitimately omit such a row when it is satisfied (CasADi folds it to a true constant). *)
PredictCons(W, W2) ==
  [ci \in 1..Len(W.d.cons) |->
     LET c == W.d.cons[ci]
         pts == SetToSeq(DeclaredPoints(c, W.N, W.M))
     IN [cid |-> c.cid, rel |-> c.rel,
         inst |-> [pi \in 1..Len(pts) |->
                     LET s1 == Slacks(c, W, pts[pi]) IN
                     [k |-> pts[pi].k, l |-> pts[pi].l, s |-> s1,
                      const |-> ~VBad(s1) /\ s1 = Slacks(c, W2, pts[pi])]]]]

PredictGaps(W) ==
  IF W.d.method.kind = "MS"
  THEN [k \in 1..W.N |-> [i \in 1..NX(W.d) |-> Div(Sub(W.X[k + 1][i], W.res[k].xf[i]), W.d.states[i].scale)]]
  ELSE <<>>

PredictObj(W) == SumSeq([i \in 1..Len(W.d.obj) |-> EvalW(W.d.obj[i], W, EnvNS(W), -1)])

(* read-backs: sample / value of expressions *)
PredictRead(W, r) ==
  CASE r.kind = "value" -> [t |-> <<>>, v |-> <<EvalW(r.e, W, EnvNS(W), -1)>>]
    [] r.kind = "sample" /\ r.grid = "control" ->
         [t |-> W.g, v |-> [k \in 1..W.N + 1 |-> EvalW(r.e, W, EnvNode(W, k - 1), k - 1)]]
    [] r.kind = "sample" /\ r.grid = "control-" ->
         [t |-> SubSeq(W.g, 1, W.N), v |-> [k \in 1..W.N |-> EvalW(r.e, W, EnvNode(W, k - 1), k - 1)]]
    [] r.kind = "sample" /\ r.grid = "integrator" ->
         [t |-> W.ig,
          v |-> [i \in 1..W.N * W.M + 1 |->
                   IF i = W.N * W.M + 1 THEN EvalW(r.e, W, EnvNode(W, W.N), W.N)
                   ELSE EvalW(r.e, W, EnvIntg(W, (i - 1) \div W.M, (i - 1) % W.M), -1)]]

Predict(d, pr, pr2) ==
  LET W == World(d, pr)
      W2 == World(d, pr2)
  IN [grid |-> W.g, igrid |-> W.ig, T |-> W.T, t0 |-> W.t0,
      X |-> W.X,
      gridfeas |-> DeclFeasible(d.method.grid, W.N, W.t0, W.T, pr.gv),
      gaps |-> PredictGaps(W),
      cons |-> PredictCons(W, W2),
      f |-> PredictObj(W),
      reads |-> [i \in 1..Len(d.reads) |-> PredictRead(W, d.reads[i])]]
=============================================================================
