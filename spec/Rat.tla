------------------------------- MODULE Rat -------------------------------
(***************************************************************************)
(* Exact rational arithmetic for TLC.                                      *)
(*                                                                         *)
(* A rational is a pair <<n, d>> with d > 0 and gcd(|n|, d) = 1.           *)
(* TLC integers are 32 bit and TLC *traps* overflow (it is an error, not   *)
(* a wrap-around).  Every product and sum below is therefore guarded: an   *)
(* operation whose intermediate would leave the 32-bit range yields the    *)
(* poison value BAD == <<0, 0>>, which propagates through every operation. *)
(* A prediction that meets BAD is *inconclusive*: the harness neither      *)
(* counts it as a pass nor as a violation.                                 *)
(***************************************************************************)
EXTENDS Integers, Sequences

MAXI == 2147483647
Abs(a) == IF a < 0 THEN -a ELSE a
Sgn(a) == IF a < 0 THEN -1 ELSE IF a = 0 THEN 0 ELSE 1
Max2(a, b) == IF a >= b THEN a ELSE b
Min2(a, b) == IF a <= b THEN a ELSE b

RECURSIVE GCD(_, _)
GCD(a, b) == IF b = 0 THEN a ELSE GCD(b, a % b)

BAD == <<0, 0>>
IsBad(a) == a[2] = 0

MulOK(a, b) == a = 0 \/ b = 0 \/ Abs(a) <= MAXI \div Abs(b)
AddOK(a, b) == Abs(a) <= MAXI - Abs(b)

Norm(n, d) ==
  IF d = 0 THEN BAD
  ELSE IF n = 0 THEN <<0, 1>>
  ELSE LET g == GCD(Abs(n), Abs(d))
           s == IF d < 0 THEN -1 ELSE 1
       IN <<s * (n \div g), s * (d \div g)>>

R(n) == <<n, 1>>
Q(n, d) == Norm(n, d)
Zero == <<0, 1>>
One == <<1, 1>>

Neg(a) == IF IsBad(a) THEN BAD ELSE <<-a[1], a[2]>>

Add(a, b) ==
  IF IsBad(a) \/ IsBad(b) THEN BAD
  ELSE LET g == GCD(a[2], b[2])
           p == b[2] \div g
           q == a[2] \div g
       IN IF ~MulOK(a[1], p) \/ ~MulOK(b[1], q) \/ ~MulOK(q, b[2]) THEN BAD
          ELSE LET x == a[1] * p
                   y == b[1] * q
               IN IF ~AddOK(x, y) THEN BAD ELSE Norm(x + y, q * b[2])

Sub(a, b) == Add(a, Neg(b))

Mul(a, b) ==
  IF IsBad(a) \/ IsBad(b) THEN BAD
  ELSE IF a[1] = 0 \/ b[1] = 0 THEN Zero
  ELSE LET g1 == GCD(Abs(a[1]), b[2])
           g2 == GCD(Abs(b[1]), a[2])
           n1 == a[1] \div g1
           n2 == b[1] \div g2
           d1 == a[2] \div g2
           d2 == b[2] \div g1
       IN IF ~MulOK(n1, n2) \/ ~MulOK(d1, d2) THEN BAD
          ELSE <<n1 * n2, d1 * d2>>

Inv(a) == IF IsBad(a) \/ a[1] = 0 THEN BAD
          ELSE IF a[1] < 0 THEN <<-a[2], -a[1]>> ELSE <<a[2], a[1]>>

Div(a, b) == Mul(a, Inv(b))

\* sign of a rational: -1, 0, 1 ; 2 when BAD
Sign(a) == IF IsBad(a) THEN 2 ELSE Sgn(a[1])
Cmp(a, b) == Sign(Sub(a, b))
Less(a, b) == Cmp(a, b) = -1
Leq(a, b) == Cmp(a, b) \in {-1, 0}
Eq(a, b) == Cmp(a, b) = 0

RECURSIVE Pow(_, _)
Pow(a, n) == IF n = 0 THEN One ELSE Mul(a, Pow(a, n - 1))

(* TLC evaluates [i \in S |-> e] lazily and re-evaluates e on every application; Tup forces a
   function with domain 1..n into an explicit tuple so that nested constructions stay linear. *)
Tup(f) == f \o <<>>

(* vectors = sequences of rationals *)
VAdd(v, w) == Tup([i \in 1..Len(v) |-> Add(v[i], w[i])])
VSub(v, w) == Tup([i \in 1..Len(v) |-> Sub(v[i], w[i])])
VScale(c, v) == Tup([i \in 1..Len(v) |-> Mul(c, v[i])])
VZero(n) == Tup([i \in 1..n |-> Zero])
VBad(v) == \E i \in 1..Len(v) : IsBad(v[i])

RECURSIVE SumTo(_, _, _)
\* sum_{i=lo..hi} f[i]  for a sequence / function f of rationals
SumTo(f, lo, hi) == IF lo > hi THEN Zero ELSE Add(f[lo], SumTo(f, lo + 1, hi))
SumSeq(s) == SumTo(s, 1, Len(s))

Dot(v, w) == SumSeq(Tup([i \in 1..Len(v) |-> Mul(v[i], w[i])]))
=============================================================================
