------------------------------ MODULE RatPoly ------------------------------
(***************************************************************************)
(* Polynomials with rational coefficients: p[i] is the coefficient of      *)
(* x^(i-1).  Used to derive the collocation coefficient matrices C, D, B   *)
(* from the node vector tau (independently of CasADi), dense outputs,      *)
(* Bernstein conversion (C15) and power-series order checks (C03).         *)
(***************************************************************************)
EXTENDS Rat

PConst(c) == <<c>>
PX == <<Zero, One>>
PDeg(p) == Len(p) - 1
PCoef(p, i) == IF i <= Len(p) THEN p[i] ELSE Zero
PAdd(p, q) == Tup([i \in 1..Max2(Len(p), Len(q)) |-> Add(PCoef(p, i), PCoef(q, i))])
PScale(c, p) == Tup([i \in 1..Len(p) |-> Mul(c, p[i])])
PSub(p, q) == PAdd(p, PScale(R(-1), q))
PMul(p, q) ==
  Tup([k \in 1..(Len(p) + Len(q) - 1) |->
     SumSeq(Tup([i \in 1..k |-> IF i <= Len(p) /\ k + 1 - i <= Len(q) THEN Mul(p[i], q[k + 1 - i]) ELSE Zero]))])
PDer(p) == IF Len(p) <= 1 THEN <<Zero>> ELSE Tup([i \in 1..Len(p) - 1 |-> Mul(R(i), p[i + 1])])
RECURSIVE PEvalFrom(_, _, _)
PEvalFrom(p, x, i) == IF i > Len(p) THEN Zero ELSE Add(p[i], Mul(x, PEvalFrom(p, x, i + 1)))
PEval(p, x) == PEvalFrom(p, x, 1)
\* definite integral over [0, 1]
PInt01(p) == SumSeq(Tup([i \in 1..Len(p) |-> Mul(p[i], Q(1, i))]))
\* antiderivative with zero constant
PInt(p) == <<Zero>> \o Tup([i \in 1..Len(p) |-> Mul(p[i], Q(1, i))])
RECURSIVE PPow(_, _)
PPow(p, n) == IF n = 0 THEN <<One>> ELSE PMul(p, PPow(p, n - 1))
\* composition p(q(x))
RECURSIVE PCompFrom(_, _, _)
PCompFrom(p, q, i) == IF i > Len(p) THEN <<Zero>> ELSE PAdd(<<p[i]>>, PMul(q, PCompFrom(p, q, i + 1)))
PComp(p, q) == PCompFrom(p, q, 1)
\* truncate to degree < n (power series arithmetic mod x^n)
PTrunc(p, n) == IF Len(p) <= n THEN p ELSE SubSeq(p, 1, n)

(* Lagrange basis polynomial j through the nodes tr (sequence of distinct rationals) *)
RECURSIVE LagFrom(_, _, _)
LagFrom(tr, j, r) ==
  IF r > Len(tr) THEN <<One>>
  ELSE IF r = j THEN LagFrom(tr, j, r + 1)
  ELSE PMul(PScale(Inv(Sub(tr[j], tr[r])), <<Neg(tr[r]), One>>), LagFrom(tr, j, r + 1))
Lagrange(tr, j) == LagFrom(tr, j, 1)

(***************************************************************************)
(* Collocation coefficients for nodes tau (d rationals in (0, 1]):         *)
(*   basis through tau_root = <<0>> \o tau                                 *)
(*   C[r][j] = l_r'(tau_j)  (r = 1..d+1, j = 1..d)                         *)
(*   D[r]    = l_r(1)                                                      *)
(*   B[j]    = integral_0^1 of the j-th Lagrange polynomial through tau     *)
(*             alone: the interpolatory quadrature on the collocation      *)
(*             times, which integrates constants exactly for every d.      *)
(*             (It coincides with integral_0^1 l_{j+1} whenever the weight *)
(*             of the extra node 0 vanishes -- true for Legendre nodes and *)
(*             for Radau nodes with d >= 2, false for Radau d = 1.)        *)
(***************************************************************************)
TauRoot(tau) == <<Zero>> \o tau
CollC(tau) == LET tr == TauRoot(tau) d == Len(tau)
              IN Tup([r \in 1..d + 1 |-> Tup([j \in 1..d |-> PEval(PDer(Lagrange(tr, r)), tau[j])])])
CollD(tau) == LET tr == TauRoot(tau) d == Len(tau)
              IN Tup([r \in 1..d + 1 |-> PEval(Lagrange(tr, r), One)])
CollB(tau) == Tup([j \in 1..Len(tau) |-> PInt01(Lagrange(tau, j))])
CollBRoot(tau) == LET tr == TauRoot(tau) IN Tup([j \in 1..Len(tau) |-> PInt01(Lagrange(tr, j + 1))])
\* basis through tau only (algebraic variables): value at s of the interpolant of values z[j] at tau[j]
ZInterp(tau, s) == Tup([j \in 1..Len(tau) |-> PEval(Lagrange(tau, j), s)])

(* binomial coefficients and power-basis -> Bernstein-basis conversion on [0, 1] *)
RECURSIVE Binom(_, _)
Binom(n, k) == IF k = 0 \/ k = n THEN 1 ELSE Binom(n - 1, k - 1) + Binom(n - 1, k)
\* b[i+1] = sum_{j<=i} C(i,j)/C(n,j) a[j+1] ,  n = degree
ToBernstein(p) ==
  LET n == Len(p) - 1
  IN Tup([i \in 1..n + 1 |-> SumSeq(Tup([j \in 1..i |-> Mul(Q(Binom(i - 1, j - 1), Binom(n, j - 1)), p[j])]))])
=============================================================================
