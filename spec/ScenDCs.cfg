INIT Init
NEXT Next
INVARIANT Emit
POSTCONDITION Post
CHECK_DEADLOCK FALSE
