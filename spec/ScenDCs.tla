------------------------------ MODULE ScenDCs ------------------------------
(***************************************************************************)
(* C02 for *every* degree 1..5 and both schemes, whose collocation nodes   *)
(* are irrational in general: special probes whose predictions do not      *)
(* depend on the node values.  On every integrator step the helper states   *)
(* are put on a straight line  x(tau) = a + b tau  (the harness evaluates   *)
(* it at the real nodes); the right-hand side x' = u + pc is state- and     *)
(* time-free.  Any collocation scheme differentiates polynomials of degree  *)
(* <= d exactly (C 1 = 0, C tau = 1), interpolates them (D) and integrates  *)
(* constants (sum B = 1), hence for every node vector:                      *)
(*   collocation residual (k,l,j) = b_kl / dt_k - (u_k + pc_k)   (d times)  *)
(*   continuity residual (k,l)    = a_kl + b_kl - start of the next step    *)
(*   integral(3 + u pc)           = sum_k (3 + u_k pc_k) (t_{k+1} - t_k)    *)
(* This exercises all index plumbing (which helper block, control,          *)
(* parameter column, dt) for the degrees the exact model cannot reach.      *)
(***************************************************************************)
EXTENDS Grids, Json, IOUtils, TLC
VARIABLE sc
Seed == atoi(IOEnv.VERIF_SEED)
Thorough == IOEnv.VERIF_TIER = "thorough"
Part == atoi(IOEnv.PART)
Parts == atoi(IOEnv.PARTS)
PV(s, a, b, c) == Q(((7 * a + 3 * b + 5 * c + 11 * s) % 9) - 4, 2)
Space == [scheme : {"radau", "legendre"}, degree : 1..5, N : 1..(IF Thorough THEN 4 ELSE 3), M : 1..2, grid : {"uni", "geo"}, hz : {"num", "fT"}, seed : {Seed}]
Init == sc \in {s \in Space : (s.degree + s.N + s.M) % Parts = Part}
Next == UNCHANGED sc
Emit ==
  LET N == sc.N M == sc.M
      G == IF sc.grid = "uni" THEN Uniform ELSE Geometric(R(2), N, FALSE)
      T == IF sc.grid = "uni" THEN R(N) ELSE Q(Pow(R(2), N)[1] - 1, 2)
      t0 == Q(1, 2)
      g == Declared(G, N, t0, T)
      a(k, l) == PV(sc.seed, 1, k, l)
      b(k, l) == PV(sc.seed, 2, k, l)
      u(k) == PV(sc.seed, 3, k, 1)
      pc(k) == Q(2 + k, 2)
      xN == PV(sc.seed, 4, 1, 1)
      dt(k) == Mul(Sub(g[k + 1], g[k]), Q(1, M))
      nextstart(k, l) == IF l < M THEN a(k, l + 1) ELSE IF k < N THEN a(k + 1, 1) ELSE xN
  IN TLCSet(1, Append(TLCGet(1),
       [sc |-> sc, t0 |-> t0, T |-> T, grid |-> G, growth |-> G.growth,
        a |-> Tup([k \in 1..N |-> Tup([l \in 1..M |-> a(k, l)])]), b |-> Tup([k \in 1..N |-> Tup([l \in 1..M |-> b(k, l)])]),
        u |-> Tup([k \in 1..N |-> u(k)]), pc |-> Tup([k \in 1..N |-> pc(k)]), xN |-> xN,
        colloc |-> Tup([k \in 1..N |-> Tup([l \in 1..M |-> Sub(Div(b(k, l), dt(k)), Add(u(k), pc(k)))])]),
        cont |-> Tup([k \in 1..N |-> Tup([l \in 1..M |-> Sub(Add(a(k, l), b(k, l)), nextstart(k, l))])]),
        f |-> Add(SumSeq(Tup([k \in 1..N |-> Mul(Add(R(3), Mul(u(k), pc(k))), Sub(g[k + 1], g[k]))])), Mul(xN, xN)),
        times |-> g]))
Post == /\ ndJsonSerialize(IOEnv.OUT_FILE, TLCGet(1)) /\ PrintT(<<"emitted", Len(TLCGet(1))>>)
ASSUME TLCSet(1, <<>>)
=============================================================================
