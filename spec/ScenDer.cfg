INIT Init
NEXT Next
INVARIANT Emit
INVARIANT DerIsChainRule
POSTCONDITION Post
CHECK_DEADLOCK FALSE
