------------------------------ MODULE ScenDer ------------------------------
(***************************************************************************)
(* C16: der(e) is the total time derivative along the declared dynamics.   *)
(* TLC enumerates right-hand sides x expressions x rational evaluation     *)
(* points and predicts  de/dt + grad_x e . f  by symbolic differentiation  *)
(* of the AST (Expr!Der), including second derivatives der(der(e)).        *)
(* The invariant DerIsChainRule checks the symbolic derivative against a   *)
(* difference quotient along an explicit Euler step of exact rationals:    *)
(* (e(x + h f, t + h) - e(x, t)) / h - Der(e) = O(h), i.e. it is bounded   *)
(* by K h for two step sizes.                                              *)
(***************************************************************************)
EXTENDS Nlp, Catalog, Json, IOUtils
VARIABLE sc
Seed == atoi(IOEnv.VERIF_SEED)
PV(s, a, b, c) == Q(((7 * a + 3 * b + 5 * c + 11 * s) % 9) - 4, 2)

ExprIds == {"d1", "d2", "d3", "d4", "d5", "d6", "d7", "d8", "d9", "dq", "dq1", "dq2"}
ExprOf(id) == CASE id = "d1" -> Sq(X(1))
                [] id = "d2" -> Times(X(1), Tm)
                [] id = "d3" -> Plus(Times(X(1), X(1)), Sq(Tm))
                [] id = "d4" -> Plus(Times(P(1), X(1)), Tm)
                [] id = "d5" -> Sq(Plus(X(1), Tm))
                [] id = "d6" -> X(1)
                [] id = "d8" -> Times(Sq(Tm), Plus(Tm, CI(3)))
                [] id = "d9" -> Plus(Times(X(5), X(2)), Times(X(4), Tm))        \* members of a matrix state and the scalar declared after it (R9)
                [] id = "dq" -> Plus(Times(QS(1), X(1)), QS(2))               \* quadrature states (declared with state(quad=True)) next to a state
                [] id = "dq1" -> QS(1)
                [] id = "dq2" -> Plus(Times(X(1), Tm), Sq(Tm))                   \* no quadrature state in the expression, but the stage has some; explicit time
                [] id = "d7" -> Minus(Times(Times(X(1), X(1)), X(1)), Times(CI(3), Tm))
Space == [rhs : {"R1", "R2", "R3", "R4", "R5", "R9"}, e : ExprIds, seed : {Seed, Seed + 1, Seed + 2}, order : {1, 2}]
Uses2(e) == FALSE
\* the derivative of an expression of the states mentions the controls, for which der() is documented to raise:
\* second derivatives are taken of pure time expressions only
Init == sc \in {s \in Space : (s.e = "d4" => s.rhs \in {"R2", "R3", "R4", "R9"}) /\ (s.order = 2 => s.e = "d8") /\ (s.e = "d9" <=> s.rhs = "R9") /\ (s.e \in {"dq", "dq1", "dq2"} => s.rhs \in {"R1", "R2", "R5"})}
Next == UNCHANGED sc

Point(d, s) == [x |-> Tup([i \in 1..Len(d.states) |-> PV(s, 1, 1, i)]), u |-> Tup([i \in 1..Len(d.controls) |-> PV(s, 2, 1, i)]),
                z |-> <<>>, p |-> Tup([i \in 1..Len(d.params) |-> PV(s, 3, 1, i)]), v |-> Tup([i \in 1..Len(d.vars) |-> PV(s, 4, 1, i)]),
                q |-> Tup([i \in 1..Len(d.quads) |-> PV(s, 6, 1, i)]), t |-> PV(s, 5, 1, 1), T |-> R(2), t0 |-> One, DT |-> BAD, DTc |-> BAD]
DeclOf(s) == IF s.e \in {"dq", "dq1", "dq2"} THEN [Rhs(s.rhs, 2) EXCEPT !.quads = <<Q1, Q2>>, !.qstates = TRUE] ELSE Rhs(s.rhs, 2)
DerN(e, d, n) == IF n = 1 THEN DerQ(e, d.rhs, d.quads) ELSE DerQ(DerQ(e, d.rhs, d.quads), d.rhs, d.quads)

Emit == LET d == DeclOf(sc)
            pt == Point(d, sc.seed)
            e == ExprOf(sc.e)
        IN TLCSet(1, Append(TLCGet(1), [sc |-> sc, decl |-> d, e |-> e, point |-> pt,
                                        value |-> Eval(DerN(e, d, sc.order), pt), e_value |-> Eval(e, pt)]))

DiffQuot(e, d, pt, h) ==
  LET f == EvalVec(d.rhs, pt)
      pt2 == [pt EXCEPT !.x = VAdd(pt.x, VScale(h, f)), !.t = Add(pt.t, h),
                        !.q = IF Len(d.quads) = 0 THEN <<>> ELSE VAdd(pt.q, VScale(h, EvalVec(d.quads, pt)))]
  IN Div(Sub(Eval(e, pt2), Eval(e, pt)), h)
AbsR(a) == IF Sign(a) = -1 THEN Neg(a) ELSE a
DerIsChainRule ==
  LET d == DeclOf(sc) pt == Point(d, sc.seed) e == ExprOf(sc.e)
      dv == Eval(DerQ(e, d.rhs, d.quads), pt)
      e1 == AbsR(Sub(DiffQuot(e, d, pt, Q(1, 8)), dv))
      e2 == AbsR(Sub(DiffQuot(e, d, pt, Q(1, 16)), dv))
  IN IsBad(e1) \/ IsBad(e2) \/ (Leq(e2, e1) /\ Leq(e2, R(40)))
Post == /\ ndJsonSerialize(IOEnv.OUT_FILE, TLCGet(1)) /\ PrintT(<<"emitted", Len(TLCGet(1))>>)
ASSUME TLCSet(1, <<>>)
=============================================================================
