INIT Init
NEXT Next
INVARIANT Emit
PROPERTY SolverOnlySeesWellPosed
POSTCONDITION Post
CHECK_DEADLOCK FALSE
