----------------------------- MODULE ScenFault -----------------------------
(* Enumerates the fault scenarios of Faults.tla with the outcome the specification demands:
   "raise" (before any solver call) for every fault, "ok" for the fault-free controls. *)
EXTENDS Faults, Json, IOUtils
Emit == (phase = "declaring" /\ defects = {} /\ ~raised /\ solverCalls = 0) =>
          TLCSet(1, Append(TLCGet(1), [sc |-> cfg, expect |-> IF cfg.fault = "none" THEN "ok" ELSE "raise"]))
Post == /\ ndJsonSerialize(IOEnv.OUT_FILE, TLCGet(1)) /\ PrintT(<<"emitted", Len(TLCGet(1))>>)
ASSUME TLCSet(1, <<>>)
=============================================================================
