------------------------------ MODULE ScenFlow ------------------------------
(***************************************************************************)
(* C03.b/c: exactly solvable families.  The right-hand sides are           *)
(* polynomial in t, u, p and lower-triangular in the states, so the exact  *)
(* flow and integral over [t0, t0+T] are rational and computed here        *)
(* (RatPoly); next to them the values of the specification's own schemes   *)
(* (rk, expl_euler) with M sub-steps.  The harness compares                *)
(* ocp.discrete_system() with the scheme values (exactly) and with the     *)
(* exact flow (CasADi integrators, loose tolerance), ocp.sys_simulator     *)
(* with the same flow, and checks that the error of the real schemes       *)
(* shrinks with M at the classical rate.                                   *)
(***************************************************************************)
EXTENDS Nlp, Catalog, Json, IOUtils
VARIABLE sc
Seed == atoi(IOEnv.VERIF_SEED)
PV(s, a, b) == Q(((7 * a + 3 * b + 11 * s) % 9) - 4, 2)
\* F1: x' = 1 + 2t + 3t^2 + 4t^3 + u p        F2: x1' = t + u, x2' = 2 x1 + 1        F4: x' = 5 t^4 + u  (rk not exact)
\* quadrature integrand q = x(1) + t^2  (F1, F4) / x1 + x2 (F2)
Fam(id) ==
  CASE id = "F1" -> [Base EXCEPT !.states = <<S1>>, !.controls = <<Sym1>>, !.params = <<[kind |-> "g", val |-> <<R(3)>>]>>,
                                 !.rhs = <<Plus(Plus3(CI(1), Times(CI(2), Tm), Times(CI(3), Sq(Tm))), Plus(Times(CI(4), Times(Tm, Sq(Tm))), Times(U(1), P(1))))>>,
                                 !.quads = <<Plus(X(1), Sq(Tm))>>]
    [] id = "F2" -> [Base EXCEPT !.states = <<S1, S1>>, !.controls = <<Sym1>>,
                                 !.rhs = <<Plus(Tm, U(1)), Plus(Times(CI(2), X(1)), CI(1))>>, !.quads = <<Plus(X(1), X(2))>>]
    [] id = "F4" -> [Base EXCEPT !.states = <<S1>>, !.controls = <<Sym1>>,
                                 !.rhs = <<Plus(Times(CI(5), Sq(Sq(Tm))), U(1))>>, !.quads = <<Plus(X(1), Sq(Tm))>>]
    [] id = "F5" -> [Base EXCEPT !.states = <<S1>>, !.controls = <<Sym1>>, !.algs = <<Sym1>>,
                                 !.rhs = <<Plus(Z(1), Tm)>>, !.alg = <<Minus(Minus(Z(1), Times(CI(2), Tm)), U(1))>>,
                                 !.quads = <<Plus(X(1), Z(1))>>]
\* F5: index-1 DAE  x' = z + t ,  0 = z - 2t - u   (so z = 2t + u and x' = 3t + u);  integrand x + z
\* exact state polynomials in absolute time t for x(t0) = x0, constant u, p
IntFrom(p, t0) == LET P0 == PInt(p) IN PSub(P0, <<PEval(P0, t0)>>)       \* int_{t0}^t p
ExactPolys(id, x0, u, p, t0) ==
  CASE id = "F1" -> <<PAdd(<<x0[1]>>, IntFrom(<<Add(One, Mul(u, p)), R(2), R(3), R(4)>>, t0))>>
    [] id = "F2" -> LET x1 == PAdd(<<x0[1]>>, IntFrom(<<u, One>>, t0))
                    IN <<x1, PAdd(<<x0[2]>>, IntFrom(PAdd(PScale(R(2), x1), <<One>>), t0))>>
    [] id = "F4" -> <<PAdd(<<x0[1]>>, IntFrom(<<u, Zero, Zero, Zero, R(5)>>, t0))>>
    [] id = "F5" -> <<PAdd(<<x0[1]>>, IntFrom(<<u, R(3)>>, t0))>>
QuadPoly(id, xs, u) == IF id = "F2" THEN PAdd(xs[1], xs[2]) ELSE IF id = "F5" THEN PAdd(xs[1], <<u, R(2)>>) ELSE PAdd(xs[1], <<Zero, Zero, One>>)

Space == [fam : {"F1", "F2", "F4", "F5"}, M : {1, 2, 4, 8}, t0 : {Zero, Q(1, 2)}, T : {One, R(2)}, seed : {Seed, Seed + 1}]
Init == sc \in Space
Next == UNCHANGED sc
Emit ==
  LET d0 == Fam(sc.fam)
      x0 == Tup([i \in 1..Len(d0.states) |-> PV(sc.seed, 1, i)])
      u == PV(sc.seed, 2, 1)
      p == R(3)
      xs == ExactPolys(sc.fam, x0, u, p, sc.t0)
      tf == Add(sc.t0, sc.T)
      scheme(intg) ==
        LET d == [d0 EXCEPT !.method = Method("SS", 1, sc.M, intg, Uniform), !.t0 = Num(sc.t0), !.T = Num(sc.T)]
            pr == [X |-> <<x0>>, U |-> <<<<u>>>>, V |-> <<>>, T |-> sc.T, t0 |-> sc.t0, gv |-> [Tl |-> <<>>, t0l |-> <<>>], XI |-> <<>>, XR |-> <<>>, ZR |-> <<>>]
            r == ShootInterval(d, pr, 1, sc.M, sc.T, sc.t0, <<sc.t0, tf>>, 0, x0)
        IN [xf |-> r.xf, qf |-> r.qf]
  IN TLCSet(1, Append(TLCGet(1),
       [sc |-> sc, decl |-> d0, x0 |-> x0, u |-> u, p |-> p,
        exact |-> [xf |-> Tup([i \in 1..Len(xs) |-> PEval(xs[i], tf)]),
                   qf |-> <<Sub(PEval(PInt(QuadPoly(sc.fam, xs, u)), tf), PEval(PInt(QuadPoly(sc.fam, xs, u)), sc.t0))>>],
        \* the explicit schemes do not apply to a DAE
        rk |-> IF sc.fam = "F5" THEN [xf |-> <<>>, qf |-> <<>>] ELSE scheme("rk"),
        euler |-> IF sc.fam = "F5" THEN [xf |-> <<>>, qf |-> <<>>] ELSE scheme("expl_euler")]))
Post == /\ ndJsonSerialize(IOEnv.OUT_FILE, TLCGet(1)) /\ PrintT(<<"emitted", Len(TLCGet(1))>>)
ASSUME TLCSet(1, <<>>)
=============================================================================
