INIT InitS
NEXT NextS
INVARIANT Emit
POSTCONDITION Post
CHECK_DEADLOCK FALSE
