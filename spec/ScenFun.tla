------------------------------ MODULE ScenFun ------------------------------
(* Scenario generator for C19: behaviours  SetCur* ; Make(args) ; SetCur(post, 3) ; [Make(args)] ; Call(vals)  of ToFunction.tla
   together with the data the call (on the function made last) must work on (DataOfCall). *)
EXTENDS ToFunction, Json, IOUtils
VARIABLE meth
Seed == atoi(IOEnv.VERIF_SEED)
Thorough == IOEnv.VERIF_TIER = "thorough"
Scen == {s \in [meth : {"MS", "SS", "DC"}, args : (SUBSET ArgNames) \ {{}}, pre : [ArgNames -> Vals \cup {0}], post : {"none", "p", "q", "gx", "edit"},
               vals : [ArgNames -> Vals], iters : {0, 50}, scaled : BOOLEAN, remake : BOOLEAN, multi : BOOLEAN, cat : BOOLEAN] :
           /\ s.pre.p # 0 /\ s.pre.q # 0
           /\ (~Thorough => (s.pre.gu = 0 /\ s.vals.gu = 1 /\ (s.pre.gx = 0 \/ "gx" \in s.args)))
           /\ (s.remake => s.post # "none") /\ (s.post = "edit" => s.remake /\ ~s.multi)
           \* two stages cloned from one template: p / q are the values of the template's parameter in stage 1 / stage 2
           /\ (s.multi => s.args \subseteq {"p", "q"} /\ s.post # "gx" /\ ~s.scaled /\ s.iters = 50 /\ s.pre.gx = 0 /\ s.pre.gu = 0 /\ s.vals.gx = 1 /\ s.vals.gu = 1)
           \* imperative values given through one set_value on a concatenation (matrix parameter first, then p): same meaning
           /\ (s.cat => ~s.scaled /\ ~s.multi /\ s.iters = 50 /\ "p" \in s.args)
           /\ (s.iters = 0 => ("gx" \in s.args \/ "gu" \in s.args))
           \* scaled states/controls (C14 x C19): a thin slice of the space
           /\ (s.scaled => s.post = "none" /\ s.pre = [p |-> 1, q |-> 1, gx |-> 0, gu |-> 0])}
InitS == meth \in Scen /\ Init
NextS == UNCHANGED <<vars, meth>>
Emit == LET s == meth
            \* "edit": an inactive constraint is added in between (forces a re-transcription, changes no value)
            snap == IF s.remake /\ s.post # "edit" THEN [s.pre EXCEPT ![s.post] = 3] ELSE s.pre
            f == [args |-> s.args, snap |-> snap]
        IN TLCSet(1, Append(TLCGet(1), [sc |-> [meth |-> s.meth, args |-> s.args, pre |-> s.pre, post |-> s.post, vals |-> s.vals, iters |-> s.iters, scaled |-> s.scaled, remake |-> s.remake, multi |-> s.multi, cat |-> s.cat],
                                        data |-> DataOfCall(f, s.vals)]))
Post == /\ ndJsonSerialize(IOEnv.OUT_FILE, TLCGet(1)) /\ PrintT(<<"emitted", Len(TLCGet(1))>>)
ASSUME TLCSet(1, <<>>)
=============================================================================
