INIT InitH
NEXT NextH
CONSTANT Devs <- NoDevs
INVARIANT Emit
INVARIANT CacheCurrent
INVARIANT NeverRaises
CONSTRAINT Constr
POSTCONDITION Post
CHECK_DEADLOCK FALSE
