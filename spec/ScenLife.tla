------------------------------ MODULE ScenLife ------------------------------
(***************************************************************************)
(* History generator for the lifecycle model: behaviours of Lifecycle with  *)
(* a history variable that records, per step, the operation and the         *)
(* abstract state the specification reaches.  Run exhaustively (all         *)
(* histories up to DEPTH) or with -simulate (random histories).  Each       *)
(* behaviour of length DEPTH is appended to TLC register 1 and serialised   *)
(* as ndjson; the harness drives the real object along it.                  *)
(***************************************************************************)
EXTENDS Lifecycle, Json, IOUtils

VARIABLE hist
Depth == atoi(IOEnv.DEPTH)
Part  == atoi(IOEnv.PART)
Parts == atoi(IOEnv.PARTS)

Rec(op, arg) == [op |-> op, arg |-> arg, decl |-> decl', live |-> live', tflag |-> tflag', out |-> out']
Do(op, arg, A) == /\ Len(hist) < Depth /\ A /\ hist' = Append(hist, Rec(op, arg))

InitH == Init /\ hist = <<>>
NextH == \/ \E c \in ConsIds : Do("subject_to", c, SubjectTo(c))
         \/ Do("clear_constraints", "", ClearConstraints)
         \/ Do("add_objective", "", AddObjective) \/ Do("add_state", "", AddState)
         \/ \E m \in Meths : Do("method", m, Method(m))
         \/ \E s \in Solvers : Do("solver", s, Solver(s))
         \/ \E v \in Tvals : Do("set_T", ToString(v), SetT(v))
         \/ \E v \in T0vals : Do("set_t0", ToString(v), SetT0(v))
         \/ \E v \in Pvals : Do("set_value", ToString(v), SetValue(v))
         \/ \E v \in {2, 3} : Do("set_value_cat", ToString(v), SetValueCat(v))
         \/ \E g \in Gvals : Do("set_initial", ToString(g), SetInitial(g))
         \/ Do("sample", "", Sample) \/ Do("value", "", Value) \/ Do("jacobian", "", Jacobian)
         \/ Do("solve", "", Solve) \/ Do("sol_sample", "", SolSample)
         \/ Do("save", "", Save)

\* partition exhaustive runs by the first operation
FirstCode == IF Len(hist) = 0 THEN 0
             ELSE CHOOSE i \in 0..16 : hist[1].op = <<"subject_to", "clear_constraints", "add_objective", "method", "solver",
                         "set_T", "set_t0", "set_value", "set_initial", "sample", "value", "jacobian", "solve", "save", "sol_sample", "add_state", "set_value_cat">>[i + 1]
InPart == Len(hist) = 0 \/ FirstCode % Parts = Part

Emit == (Len(hist) = Depth /\ InPart) => TLCSet(1, Append(TLCGet(1), [sc |-> [depth |-> Depth, n |-> Len(TLCGet(1))], hist |-> hist]))
Constr == InPart
Post == /\ ndJsonSerialize(IOEnv.OUT_FILE, TLCGet(1))
        /\ PrintT(<<"emitted", Len(TLCGet(1))>>)
NoDevs == {}
ASSUME TLCSet(1, <<>>)
=============================================================================
