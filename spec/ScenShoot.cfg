INIT Init
NEXT Next
INVARIANT Emit
INVARIANT PlacementOK
POSTCONDITION Post
CHECK_DEADLOCK FALSE
