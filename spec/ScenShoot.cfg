INIT Init
NEXT Next
INVARIANT Emit
INVARIANT PlacementOK
INVARIANT FreeEqualsFixed
POSTCONDITION Post
CHECK_DEADLOCK FALSE
