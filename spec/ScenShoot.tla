----------------------------- MODULE ScenShoot -----------------------------
(***************************************************************************)
(* Scenario generator for the shooting methods: TLC enumerates (or, with   *)
(* -simulate, samples) a bounded space of declarations x method            *)
(* configurations x probes and, for each, computes the exact prediction.   *)
(* Every visited state appends [sc, decl, probe, pred] to TLC register 1;  *)
(* the POSTCONDITION serialises the register as ndjson for the harness.    *)
(* The same run checks the model-level invariants listed in the cfg.       *)
(***************************************************************************)
EXTENDS Nlp, Catalog, Json, IOUtils

VARIABLE sc

Family == IOEnv.FAMILY
Tier   == IOEnv.VERIF_TIER
Seed   == atoi(IOEnv.VERIF_SEED)
Part   == atoi(IOEnv.PART)
Parts  == atoi(IOEnv.PARTS)
Thorough == Tier = "thorough"

PV(s, a, b, c) == Q(((7 * a + 3 * b + 5 * c + 11 * s) % 9) - 4, 2)

GridOf(id, N) ==
  CASE id = "uni"  -> Uniform
    [] id = "geo"  -> Geometric(R(2), N, FALSE)
    [] id = "geoL" -> Geometric(R(2), N, TRUE)
    [] id = "dens" -> DensityG(Tup([k \in 1..N + 1 |-> Q(k - 1, N)]))       \* DensityGrid with a constant density
    [] id = "fun"  -> FunctionG(CASE N = 1 -> <<Zero, One>>
                                  [] N = 2 -> <<Zero, Q(1, 4), One>>
                                  [] N = 3 -> <<Zero, Q(1, 4), Q(1, 2), One>>
                                  [] N = 4 -> <<Zero, Q(1, 8), Q(1, 4), Q(1, 2), One>>
                                  [] N = 5 -> <<Zero, Q(1, 8), Q(1, 4), Q(1, 2), Q(3, 4), One>>
                                  [] N = 6 -> <<Zero, Q(1, 8), Q(1, 4), Q(3, 8), Q(1, 2), Q(3, 4), One>>)
\* horizon length that keeps the integrator steps at small dyadic values
TBase(id, N) ==
  CASE id = "uni" -> R(N)
    [] id \in {"geo", "geoL"} -> Q(Pow(R(2), N)[1] - 1, 2)
    [] id = "fun" -> R(2)
    [] id = "dens" -> R(2)

MkProbe(d, s) ==
  LET N == d.method.N
  IN [X |-> Tup([k \in 1..N + 1 |-> Tup([i \in 1..Len(d.states) |-> PV(s, 1, k, i)])]),
      U |-> Tup([k \in 1..N |-> Tup([i \in 1..Len(d.controls) |-> PV(s, 2, k, i)])]),
      V |-> Tup([i \in 1..Len(d.vars) |-> Tup([c \in 1..PCols(d.vars[i].kind, N) |-> PV(s, 3, i, c)])]),
      T |-> d.T.v, t0 |-> d.t0.v,
      gv |-> [Tl |-> <<>>, t0l |-> <<>>],
      \* direct collocation: intermediate start states, helper states and algebraic values at the collocation times
      XI |-> Tup([k \in 1..N |-> Tup([l \in 1..d.method.M |-> Tup([i \in 1..Len(d.states) |-> PV(s, 4, k + l, i)])])]),
      XR |-> Tup([k \in 1..N |-> Tup([l \in 1..d.method.M |-> Tup([j \in 1..d.method.degree |-> Tup([i \in 1..Len(d.states) |-> PV(s, 5 + j, k + 2 * l, i)])])])]),
      ZR |-> Tup([k \in 1..N |-> Tup([l \in 1..d.method.M |-> Tup([j \in 1..d.method.degree |-> Tup([i \in 1..Len(d.algs) |-> PV(s, 8 + j, k + 2 * l, i)])])])])]

\* horizon kinds: "num" both numbers; "fT" free T; "ft0" free t0; "fb" both free; "pT" T given by a parameter
WithHorizon(d, hz, t0v, Tv) ==
  CASE hz = "num" -> [d EXCEPT !.t0 = Num(t0v), !.T = Num(Tv)]
    [] hz = "fT"  -> [d EXCEPT !.t0 = Num(t0v), !.T = Free(Tv)]
    [] hz = "ft0" -> [d EXCEPT !.t0 = Free(t0v), !.T = Num(Tv)]
    [] hz = "fb"  -> [d EXCEPT !.t0 = Free(t0v), !.T = Free(Tv)]
    [] hz = "pT"  -> [d EXCEPT !.t0 = Num(t0v), !.T = Par(Len(d.params) + 1, Tv),
                               !.params = Append(d.params, [kind |-> "g", val |-> <<Tv>>])]

SchemeOf(id) == CASE id = "radau1" -> <<"radau", 1>> [] id = "radau2" -> <<"radau", 2>> [] id = "legendre1" -> <<"legendre", 1>>
MkDecl(s) ==
  LET N == s.N
      d0 == Rhs(s.rhs, N)
      d1 == [d0 EXCEPT !.method = IF s.meth = "DC" THEN MethodDC(N, s.M, SchemeOf(s.intg)[1], SchemeOf(s.intg)[2], GridOf(s.grid, N))
                                  ELSE Method(s.meth, N, s.M, s.intg, GridOf(s.grid, N)),
                       !.cons = Tup([i \in 1..Len(s.cons) |-> ConOf(s.cons[i])]),
                       !.obj = Tup([i \in 1..Len(s.obj) |-> ObjOf(s.obj[i])]),
                       !.quads = IF \E i \in 1..Len(s.obj) : s.obj[i] = "o6"
                                 THEN (IF s.rhs = "RA" THEN <<Plus(Times(P(1), X(1)), Times(P(2), Tm))>> ELSE IF s.rhs = "RF" THEN d0.quads ELSE <<Q1>>) ELSE <<>>,
                       !.reads = IF s.meth = "DC"
                                 THEN <<Read("C02.s", "sample", X(1), "control"), Read("C02.s", "sample", X(1), "integrator"),
                                        Read("C02.s", "sample", X(1), "roots"), Read("C06.e", "sample", Tm, "roots")>>
                                      \o (IF Len(d0.algs) > 0 THEN <<Read("C02.s", "sample", Z(1), "roots"), Read("C02.s", "sample", Z(1), "integrator"),
                                                                      Read("C02.s", "sample", Z(1), "control")>> ELSE <<>>)
                                 ELSE <<Read("C01.b", "sample", X(1), "control"), Read("C01.b", "sample", X(1), "integrator"),
                                        Read("C06.e", "sample", Tm, "integrator")>>]
  IN WithHorizon(d1, s.hz, IF s.seed % 2 = 0 THEN One ELSE Q(-1, 2), TBase(s.grid, N))

(***************************************************************************)
(* C06 family: grid classes x formulations x bounds x perturbed grid        *)
(* variables.  bnd: "none" | "minlo" (min below the shortest interval) |    *)
(* "minhi" (min above it: infeasible) | "maxhi" (max above the longest) |   *)
(* "maxlo" (max below it: infeasible).  pert: 0 = consistent grid           *)
(* variables, k > 0 = the k-th grid variable is shifted by 1/2.             *)
(***************************************************************************)
MinLen(g) == LET L == Lengths(g) IN CHOOSE x \in {L[i] : i \in 1..Len(L)} : \A j \in 1..Len(L) : Leq(x, L[j])
MaxLen(g) == LET L == Lengths(g) IN CHOOSE x \in {L[i] : i \in 1..Len(L)} : \A j \in 1..Len(L) : Leq(L[j], x)

GridG(s) ==
  LET N == s.N
      G0 == IF s.grid = "free" THEN WithLocal(FreeG, s.lt0, TRUE) ELSE WithLocal(GridOf(s.grid, N), s.lt0, s.lT)
      T == TBase(IF s.grid = "free" THEN "uni" ELSE s.grid, N)
      decl == IF s.grid = "free"
              THEN CumSum(Zero, Tup([k \in 1..N |-> Mul(T, Q(IF k % 2 = 1 THEN 1 ELSE 2, (3 * N - (N % 2)) \div 2))]), 1)
              ELSE Declared(G0, N, Zero, T)
  IN CASE s.bnd = "none"  -> G0
       [] s.bnd = "minlo" -> WithMin(G0, Mul(MinLen(decl), Q(1, 2)))
       [] s.bnd = "minhi" -> WithMin(G0, Mul(MinLen(decl), Q(3, 2)))
       [] s.bnd = "maxhi" -> WithMax(G0, Mul(MaxLen(decl), Q(3, 2)))
       [] s.bnd = "maxlo" -> WithMax(G0, Mul(MaxLen(decl), Q(1, 2)))

MkDeclG(s) ==
  LET N == s.N
      d0 == Rhs("R2", N)
      d1 == [d0 EXCEPT !.method = IF s.meth = "DC" THEN MethodDC(N, s.M, "radau", 2, GridG(s)) ELSE Method(s.meth, N, s.M, "rk", GridG(s)),
                       !.reads = <<Read("C06.e", "sample", Tm, "control"), Read("C06.e", "sample", Tm, "integrator"),
                                   Read("C06.e", "sample", DTs, "control"), Read("C06.e", "sample", DTc, "control"),
                                   Read("C06.e", "sample", DTs, "integrator"), Read("C06.e", "sample", DTc, "integrator"),
                                   \* the state of a system with explicit time: which grid the *dynamics* see
                                   Read("C06.e", "sample", X(1), "control"), Read("C06.e", "sample", X(1), "integrator")>>]
  IN WithHorizon(d1, s.hz, IF s.seed % 2 = 0 THEN One ELSE Q(-1, 2), TBase(IF s.grid = "free" THEN "uni" ELSE s.grid, N))

MkProbeG(d, s) ==
  LET N == d.method.N
      G == d.method.grid
      p0 == MkProbe(d, s.seed)
      t0 == d.t0.v
      T == d.T.v
      decl == IF G.kind = "free"
              THEN CumSum(t0, Tup([k \in 1..N |-> Mul(T, Q(IF k % 2 = 1 THEN 1 ELSE 2, (3 * N - (N % 2)) \div 2))]), 1)
              ELSE Declared(G, N, t0, T)
      gv0 == GvOf(decl, N)
      \* perturb the pert-th *existing* grid variable: T_local entries first, then t0_local entries
      nTl == IF HasTl(G) THEN (IF G.kind = "free" THEN N ELSE N - 1) ELSE 0
      \* neg: the first two interval variables of a FreeGrid are moved to -1/4 and (sum preserved) up: only the bound 0 <= T_local tells
      gv == IF s.neg THEN [gv0 EXCEPT !.Tl[1] = Q(-1, 4), !.Tl[2] = Add(@, Add(gv0.Tl[1], Q(1, 4)))]
            ELSE IF s.pert = 0 THEN gv0
            ELSE IF s.pert <= nTl
                 THEN [gv0 EXCEPT !.Tl[IF G.kind = "free" THEN s.pert ELSE s.pert + 1] = Add(@, Q(1, 2))]
                 ELSE [gv0 EXCEPT !.t0l[s.pert - nTl + 1] = Add(@, Q(1, 2))]
  IN [p0 EXCEPT !.gv = gv]

NGridVars(s) == (IF s.grid = "free" THEN s.N ELSE IF s.lT THEN s.N - 1 ELSE 0) + (IF s.lt0 THEN s.N ELSE 0)

(***************************************************************************)
(* C07 family: sampling commutes with expression evaluation; array layout. *)
(***************************************************************************)
E1 == Plus(Times(X(1), U(1)), Tm)
E2 == Minus(Times(P(1), X(1)), TT)
E3 == Sq(Plus(X(1), X(2)))
E4 == Plus(Times(X(2), T0), DTc)
Col2 == <<<<X(1)>>, <<X(2)>>>>
Row2 == <<<<X(1), X(2)>>>>
Mat22 == <<<<Times(X(1), Tm), U(1)>>, <<P(1), TT>>>>
MatX == <<<<X(1), X(3)>>, <<X(2), X(4)>>>>              \* the 2x2 matrix state of R8 itself
MatPX == <<<<Times(P(1), X(1)), Times(P(3), X(3))>>, <<Times(P(2), X(2)), Times(P(4), X(4))>>>>
QRhs == {"R8", "R4", "R9"}
ReadsC07(s) ==
  LET grids == IF s.meth = "DC" THEN <<"control", "control-", "integrator", "roots">> ELSE <<"control", "control-", "integrator">>
      matsZ == <<<<<<Z(1)>>>>, <<<<Plus(Times(Z(1), X(1)), Tm)>>>>, <<<<Z(1), X(1)>>>>>>      \* algebraic variable (R6)
      matsP == <<<<<<Plus(Times(P(1), X(1)), U(1))>>>>, <<<<P(1), Tm>>>>>>                   \* per-interval parameters (R4, RA)
      matsV == <<<<<<Plus(Times(V(1), X(1)), V(2))>>>>, <<<<V(2), V(1)>>, <<V(3), Tm>>>>>>        \* per-interval variables of both kinds (RC)
      matsZ3 == <<<<<<Z(3)>>>>, <<<<Z(1), Z(2)>>, <<Z(3), X(1)>>>>, <<<<Plus(Times(Z(3), X(1)), Z(2))>>>>>>      \* vector algebraic + scalar algebraic (RD)
      mats == IF s.rhs = "R6" THEN matsZ ELSE IF s.rhs = "RD" THEN matsZ3 ELSE IF s.rhs \in {"R4", "RA"} THEN matsP ELSE IF s.rhs = "RC" THEN matsV ELSE IF s.rhs \in {"R8", "R9"} THEN <<<<<<E1>>>>, Col2, Row2, Mat22, MatX, MatPX>> \o (IF s.rhs = "R9" THEN <<<<<<X(5), P(5)>>>>>> ELSE <<>>) ELSE <<<<<<E1>>>>, <<<<E2>>>>, <<<<E3>>>>, <<<<E4>>>>, Col2, Row2, Mat22>>
  IN Flat(Tup([gi \in 1..Len(grids) |-> Tup([mi \in 1..Len(mats) |-> MRead("C07.a", "msample", mats[mi], grids[gi])])]))
     \o <<MRead("C07.b", "mvalue", <<<<Plus(Times(TT, CI(3)), T0)>>>>, ""), MRead("C07.b", "mvalue", <<<<TT, T0>>, <<TF, CI(1)>>>>, "")>>
     \* integrator grid with refine (explicit schemes and exact collocation schemes have a dense output)
     \o (IF s.rhs \in {"R4", "RA"} THEN <<RRead("C07.a", Plus(Times(P(1), X(1)), U(1)), 2), RRead("C07.a", P(Len(Rhs(s.rhs, s.N).params)), 3)>>
         ELSE IF s.rhs \in {"R6", "RD"} THEN <<RRead("C07.a", Z(1), 2), RRead("C07.a", Plus(Times(Z(Len(Rhs(s.rhs, s.N).algs)), X(1)), Tm), 3)>>      \* algebraic variables between the collocation times
         ELSE IF s.rhs = "RC" THEN <<RRead("C07.a", V(1), 2), RRead("C07.a", V(2), 3), RRead("C07.a", Plus(Times(V(2), X(1)), V(1)), 2)>>
         ELSE <<RRead("C07.a", E1, 2)>>)
     \o <<RRead("C07.a", Plus(Times(X(1), TT), Times(CI(3), T0)), 2)>>      \* horizon symbols inside a refined sample
     \* user-declared quadrature states: the running integral at the nodes and at the integrator points
     \o (IF s.rhs \in QRhs
         THEN <<MRead("C07.a", "msample", <<<<QS(1)>>>>, "control"), MRead("C07.a", "msample", <<<<QS(1)>>>>, "integrator"),
                MRead("C07.a", "msample", <<<<Plus(QS(2), Times(X(1), Tm)), QS(1)>>>>, "integrator"),
                MRead("C07.a", "msample", <<<<Plus(QS(2), Times(X(1), Tm))>>>>, "control-")>>
         ELSE <<>>)

MkDeclS(s) ==
  LET N == s.N
      d0 == Rhs(s.rhs, N)
      d1 == [d0 EXCEPT !.method = IF s.meth = "DC" THEN MethodDC(N, s.M, "radau", 2, GridOf(s.grid, N))
                                  ELSE Method(s.meth, N, s.M, "rk", GridOf(s.grid, N)),
                       !.reads = ReadsC07(s),
                       !.quads = IF s.rhs \in QRhs THEN <<Q1, Q2>> ELSE @,
                       !.qstates = s.rhs \in QRhs]
  IN WithHorizon(d1, s.hz, IF s.seed % 2 = 0 THEN One ELSE Q(-1, 2), TBase(s.grid, N))

SpaceS == {s \in [rhs : {"R3v", "R8", "R9", "R6", "RD", "R4", "RA", "RC"}, meth : {"MS", "SS", "DC"}, N : 1..(IF Thorough THEN 3 ELSE 2), M : 1..2, grid : {"uni", "geo"},
                  hz : {"num", "fb"}, seed : IF Thorough THEN {Seed, Seed + 1} ELSE {Seed}, cons : {<<>>}, obj : {<<>>}] :
              (s.rhs \in {"R6", "RD"} => s.meth = "DC")}

(***************************************************************************)
(* C10 family: guesses.  C14: scales.  C11: free horizons.  C09: parameter *)
(* kinds.  All reuse the declaration builder below.                        *)
(***************************************************************************)
Gc(sym, v) == [sym |-> sym, form |-> "const", e |-> CI(0), vals |-> <<v>>, np |-> FALSE]
Ge(sym, e) == [sym |-> sym, form |-> "expr", e |-> e, vals |-> <<>>, np |-> FALSE]
Gcols(sym, vals, np) == [sym |-> sym, form |-> "cols", e |-> CI(0), vals |-> vals, np |-> np]
SymT == [op |-> "T", i |-> 0]
SymT0 == [op |-> "t0", i |-> 0]
Ramp(n) == Tup([c \in 1..n |-> Q(2 * c - 3, 2)])
GuessIds == {"z3", "Tfirst", "none", "xc", "xe", "xcols", "uc", "ue", "ucolsN", "ucolsNp", "vcols", "ve", "vg", "T", "t0", "twice", "mix", "z"}
GuessSeq(id, d, N) ==
  LET hasV == Len(d.vars) >= 2
      hasZ == Len(d.algs) >= 1
  IN CASE id = "none"    -> <<>>
       [] id = "xc"      -> <<Gc(X(1), Q(3, 2))>>
       [] id = "xe"      -> <<Ge(X(1), Plus(Times(CI(2), Tm), CI(1)))>>
       [] id = "xcols"   -> <<Gcols(X(1), Ramp(N + 1), FALSE)>>
       [] id = "uc"      -> <<Gc(U(1), Q(-5, 2))>>
       [] id = "ue"      -> <<Ge(U(1), Plus(Sq(Tm), T0))>>
       [] id = "ucolsN"  -> <<Gcols(U(1), Ramp(N), FALSE)>>
       [] id = "ucolsNp" -> <<Gcols(U(1), Ramp(N), TRUE)>>
       [] id = "vcols"   -> IF hasV THEN <<Gcols(V(1), Ramp(N), TRUE)>> ELSE <<>>
       [] id = "ve"      -> IF hasV THEN <<Ge(V(1), Minus(Tm, TT))>> ELSE <<>>
       [] id = "vg"      -> IF hasV THEN <<Gc(V(2), Q(7, 2))>> ELSE <<>>
       [] id = "T"       -> IF d.T.kind = "free" THEN <<Gc(SymT, Q(5, 2))>> ELSE <<>>
       [] id = "t0"      -> IF d.t0.kind = "free" THEN <<Gc(SymT0, Q(3, 4))>> ELSE <<>>
       [] id = "twice"   -> <<Gc(X(1), Q(3, 2)), Ge(U(1), Tm), Ge(X(1), Minus(CI(1), Tm)), Gc(U(1), Q(1, 4))>>
       [] id = "mix"     -> <<Ge(X(1), Times(Tm, Tm)), Gcols(U(1), Ramp(N), FALSE)>>
                            \o (IF d.T.kind = "free" THEN <<Gc(SymT, Q(3, 1))>> ELSE <<>>)
       [] id = "Tfirst"  -> IF d.T.kind = "free" THEN <<Gc(SymT, Q(3, 1)), Ge(X(1), Times(Tm, Tm)), Ge(U(1), Minus(Tm, TT))>> ELSE <<>>
       [] id = "z3"      -> IF Len(d.algs) >= 3 THEN <<Gc(Z(3), Q(5, 2)), Gc(X(1), Q(1, 2))>> ELSE <<>>
       [] id = "z"       -> IF hasZ THEN <<Ge(Z(1), Plus(Tm, CI(2))), Gc(X(1), Q(1, 2))>> ELSE <<>>

ScaleSets == {"s0", "s1", "s2"}
WithScales(d, sid) ==
  LET f == CASE sid = "s0" -> One [] sid = "s1" -> R(2) [] sid = "s2" -> Q(1, 4)
      sx(i) == Mul(f, R(i))
  IN IF sid = "s0" THEN d
     ELSE [d EXCEPT !.states = Tup([i \in 1..Len(d.states) |-> [scale |-> sx(i), dscale |-> Mul(f, R(2 + i))]]),       \* every state its own derivative scale
                    !.controls = Tup([i \in 1..Len(d.controls) |-> [scale |-> Mul(f, R(5))]]),
                    !.algs = Tup([i \in 1..Len(d.algs) |-> [scale |-> Mul(f, R(7))]]),
                    !.vars = Tup([i \in 1..Len(d.vars) |-> [kind |-> d.vars[i].kind, scale |-> Mul(f, R(i + 1))]]),
                    !.cons = Tup([i \in 1..Len(d.cons) |-> Scaled(d.cons[i], Mul(f, R(i + 2)))])]

\* parameter-dependent constraint / objective / read-back for the C09 family
KN == Con("kN", "le", X(1), Plus(CI(9), Off(P(2), 1)), "control", TRUE, TRUE)      \* next() of a per-interval-plus parameter (RA only)
KP == Con("kP", "le", X(1), Plus(CI(5), P(1)), "control", TRUE, TRUE)
KQ == Box("kQ", NegE(P(1)), U(1), Plus(P(1), CI(9)), "control", TRUE, FALSE)
OP == AtTf(Times(X(1), P(1)))

MkDeclX(s) ==
  LET N == s.N
      d0 == Rhs(s.rhs, N)
      dcs == SchemeOf(IF s.meth = "DC" THEN s.intg ELSE "radau2")
      d1 == [d0 EXCEPT !.method = IF s.meth = "DC" THEN MethodDC(N, s.M, dcs[1], dcs[2], IF s.grid = "free" THEN FreeG ELSE WithLocal(GridOf(s.grid, N), FALSE, s.lT))
                                  ELSE Method(s.meth, N, s.M, s.intg, IF s.grid = "free" THEN FreeG ELSE WithLocal(GridOf(s.grid, N), FALSE, s.lT)),
                       !.cons = Tup([i \in 1..Len(s.cons) |-> IF s.cons[i] = "kP" THEN KP ELSE IF s.cons[i] = "kQ" THEN KQ ELSE IF s.cons[i] = "kN" THEN KN ELSE ConOf(s.cons[i])]),
                       !.obj = Tup([i \in 1..Len(s.obj) |-> IF s.obj[i] = "oP" THEN OP ELSE ObjOf(s.obj[i])]),
                       !.quads = IF \E i \in 1..Len(s.obj) : s.obj[i] = "o6" THEN <<Q1>> ELSE <<>>,
                       !.reads = <<Read("C07.b", "value", TT, ""), Read("C07.b", "value", T0, ""), Read("C07.b", "value", TF, "")>>
                                 \* the horizon symbols seen from the collocation times
                                 \o (IF s.meth = "DC" THEN <<Read("C07.b", "sample", Plus(Times(X(1), TT), TF), "roots")>> ELSE <<>>)
                                 \o (IF Family = "C09" /\ s.rhs \notin {"R8", "R9"} THEN <<Read("C09.c", "sample", P(1), "control")>> ELSE <<>>)]
      d2 == WithHorizon(d1, s.hz, IF s.seed % 2 = 0 THEN One ELSE Q(-1, 2), TBase(IF s.grid = "free" THEN "uni" ELSE s.grid, N))
      d3 == [d2 EXCEPT !.init = GuessSeq(s.gs, d2, N)]
  IN WithScales(d3, s.scl)

MkProbeX(d, s) ==
  LET p0 == MkProbe(d, s.seed)
      G == d.method.grid
      N == d.method.N
      g == IF G.kind = "free"
           THEN CumSum(d.t0.v, Tup([k \in 1..N |-> Mul(d.T.v, Q(IF k % 2 = 1 THEN 1 ELSE 2, (3 * N - (N % 2)) \div 2))]), 1)
           ELSE Declared(G, N, d.t0.v, d.T.v)
  IN [p0 EXCEPT !.gv = GvOf(g, N)]

XFields == [lT : {FALSE}, gs : {"none"}, scl : {"s0"}, when : {"before"}]
SpaceX ==
  CASE Family = "C10" ->
         {s \in [rhs : {"R2", "R3", "R6", "RD"}, meth : {"MS", "SS", "DC"}, intg : {"rk", "radau2"}, N : 2..3, M : 1..2, grid : {"uni", "geo", "free"},
                 hz : {"num", "fb"}, seed : {Seed}, cons : {<<>>}, obj : {<<>>}, lT : BOOLEAN, gs : GuessIds, scl : {"s0"},
                 when : {"before", "after", "split"}] :     \* split: the last guess is given after a transcription, the others before
              /\ (s.meth = "DC" <=> s.intg = "radau2") /\ (s.rhs \in {"R6", "RD"} => s.meth = "DC")
              /\ (s.rhs = "RD" <=> s.gs = "z3")
              /\ (s.when = "split" => s.gs \in {"twice", "mix", "Tfirst", "z"})
              \* localized / free grids: their own time variables start on the guessed grid
              /\ (s.lT \/ s.grid = "free" => s.rhs = "R2" /\ s.when \in {"before", "after"} /\ s.gs \in {"none", "xe", "T", "t0", "mix"})
              /\ (s.grid = "free" => ~s.lT)}
    [] Family = "C14" ->
         {s \in [rhs : {"R2", "R3", "R6", "RC"}, meth : {"MS", "SS", "DC"}, intg : {"rk", "radau2"}, N : 1..2, M : 1..2, grid : {"uni", "geo"},
                 hz : {"num", "fb"}, seed : {Seed}, cons : {<<"k1", "k3", "k4">>, <<"k7", "k5">>, <<"kW", "kX">>, <<"kT0", "k1", "k8">>}, obj : {<<"o1", "o3">>, <<"o6">>}, lT : {FALSE},
                 gs : {"none", "mix", "twice"}, scl : {"s1", "s2"}, when : {"before"}] :
              /\ (s.meth = "DC" <=> s.intg = "radau2") /\ (s.rhs = "R6" => s.meth = "DC")}
    [] Family = "C11" ->
         {s \in [rhs : {"R2", "R4"}, meth : {"MS", "SS", "DC"}, intg : {"rk", "expl_euler", "radau2", "legendre1"}, N : 1..3, M : 1..2,
                 grid : {"uni", "geo", "fun", "free"}, hz : {"fT", "ft0", "fb"}, seed : {Seed}, cons : {<<"k1", "k5">>}, obj : {<<"o7", "o8", "o1">>, <<"o5", "o6">>},
                 lT : BOOLEAN, gs : {"none", "T", "t0"}, scl : {"s0", "s1"}, when : {"before", "after"}] :
              /\ (s.meth = "DC" <=> s.intg \in {"radau2", "legendre1"})
              /\ (s.lT => s.grid \in {"uni", "geo"})
              \* thin slices: the horizon guess given after a transcription; scaled constraints whose bounds mention T
              /\ (s.when = "after" => s.gs \in {"T", "t0"} /\ s.N = 2 /\ s.M = 1 /\ s.scl = "s0")
              /\ (s.scl = "s1" => s.gs = "none" /\ s.N = 2 /\ s.M = 1 /\ s.intg \in {"rk", "radau2"})}
    [] Family = "C09" ->
         {s \in [rhs : {"R2", "R3", "R4", "R8", "R9", "RA", "RG"}, meth : {"MS", "SS", "DC"}, intg : {"rk", "radau2"}, N : 1..3, M : 1..2, grid : {"uni", "fun"},
                 hz : {"num", "pT", "fT"}, seed : {Seed, Seed + 1}, cons : {<<"kP", "kQ">>, <<"kP", "kN">>}, obj : {<<"oP", "o3">>, <<"o6", "oP">>}, lT : {FALSE},
                 gs : {"none"}, scl : {"s0"}, when : {"before"}] :
              /\ (s.meth = "DC" <=> s.intg = "radau2")
              /\ (s.cons = <<"kP", "kN">> <=> s.rhs = "RA")}

(***************************************************************************)
(* C08 family: refined sampling and samplers at dynamically feasible       *)
(* points (the probe's node states are the propagated ones).               *)
(***************************************************************************)
FeasibleProbeG(d, s, gv) ==
  LET p0 == [MkProbe(d, s) EXCEPT !.gv = gv]
      dSS == [d EXCEPT !.method.kind = "SS"]
      W == World(dSS, p0)
  IN IF d.method.kind = "DC" THEN p0 ELSE [p0 EXCEPT !.X = W.X]
FeasibleProbe(d, s) ==
  LET p0 == MkProbe(d, s)
      dSS == [d EXCEPT !.method.kind = "SS"]
      W == World(dSS, p0)
  IN IF d.method.kind = "DC" THEN p0 ELSE [p0 EXCEPT !.X = W.X]
QueryTimes(N, M) == Tup([i \in 1..N * M |-> <<i, Q(1, 3)>>]) \o <<<<1, Zero>>, <<N * M, One>>, <<N * M, Q(1, 2)>>>>
                    \o (IF N * M > 1 THEN <<<<2, Zero>>, <<1, Q(3, 4)>>>> ELSE <<>>)
MkDeclR(s) ==
  LET N == s.N
      d0 == Rhs(s.rhs, N)
      dcs == SchemeOf(IF s.meth = "DC" THEN s.intg ELSE "radau2")
      ex == IF Len(d0.states) > 1 THEN Plus(Times(X(1), X(2)), Times(U(1), Tm)) ELSE Plus(Sq(X(1)), Times(U(1), Tm))
      d1 == [d0 EXCEPT !.method = IF s.meth = "DC" THEN MethodDC(N, s.M, dcs[1], dcs[2], GridOf(s.grid, N))
                                  ELSE Method(s.meth, N, s.M, s.intg, GridOf(s.grid, N)),
                       !.obj = <<O1, O3>>,    \* makes every decision variable an active NLP variable (sampler works on the gist)
                       \* a user-declared quadrature state under the explicit schemes: its dense output between integrator points
                       !.quads = IF s.meth # "DC" /\ s.rhs \in {"R1", "R2"} THEN <<Q1>> ELSE @,
                       !.qstates = s.meth # "DC" /\ s.rhs \in {"R1", "R2"},
                       !.reads = (IF Len(d0.params) > 0 THEN <<RRead("C08.c", Plus(Times(P(1), X(1)), U(1)), s.refine)>> ELSE <<>>) \o
                                 (IF s.rhs = "RC" THEN <<RRead("C08.c", Plus(Times(V(2), X(1)), V(1)), s.refine)>> ELSE <<>>) \o
                                 \* algebraic variables: dense output and sampler (DAE, DirectCollocation)
                                 (IF s.rhs = "R6" THEN <<RRead("C08.c", Plus(Z(1), X(1)), s.refine), SRead("C08.i", Plus(Times(Z(1), X(1)), Tm), QueryTimes(N, s.M))>> ELSE <<>>) \o
                                 (IF s.meth # "DC" /\ s.rhs \in {"R1", "R2"} THEN <<RRead("C08.c", Plus(QS(1), X(1)), s.refine)>> ELSE <<>>) \o
                                 <<RRead("C08.c", X(1), s.refine), RRead("C08.c", ex, s.refine), RRead("C08.c", Tm, s.refine),
                                   RRead("C08.c", Times(X(1), Minus(Tm, T0)), s.refine),      \* time since the start of the horizon

                                   Read("C08.a", "sample", X(1), "integrator"), Read("C08.a", "sample", X(1), "control"),
                                   SRead("C08.i", X(1), QueryTimes(N, s.M)), SRead("C08.i", Plus(Sq(X(1)), Times(U(1), Tm)), QueryTimes(N, s.M))>>]
  IN WithHorizon(d1, s.hz, IF s.seed % 2 = 0 THEN One ELSE Q(-1, 2), TBase(s.grid, N))
SpaceR == {s \in [rhs : {"R1", "R2", "R3", "R4", "R5", "R6", "RA", "RC"}, meth : {"MS", "SS", "DC"}, intg : {"rk", "expl_euler", "radau1", "radau2", "legendre1"},
                  N : 1..(IF Thorough THEN 3 ELSE 2), M : 1..2, grid : {"uni", "geo", "fun"}, hz : {"num", "fT"}, refine : 1..(IF Thorough THEN 7 ELSE 4),
                  seed : {Seed}, cons : {<<>>}, obj : {<<>>}] :
              /\ (s.meth = "DC" <=> s.intg \in {"radau1", "radau2", "legendre1"})
              /\ (s.rhs = "R5" => s.N * s.M <= 2 \/ s.intg = "expl_euler")
              /\ (s.rhs = "R3" => s.meth # "DC" \/ TRUE)
              /\ (s.rhs = "R6" => s.meth = "DC")}

(***************************************************************************)
(* C15 family: grid='inf' constraints.                                     *)
(***************************************************************************)
InfCon(cid, lhs, rhs) == Con(cid, "le", lhs, rhs, "inf", TRUE, TRUE)
InfIds == {"i1", "i2", "i3", "i4", "i5", "i6", "i7", "i8", "i9", "iA", "iB", "iC", "iE", "iF"}
InfOf(id, nx) ==
  CASE id = "i1" -> InfCon("i1", X(1), CI(3))
    [] id = "i2" -> InfCon("i2", Sq(X(1)), CI(9))
    [] id = "i3" -> InfCon("i3", Plus(X(1), Times(CI(2), X(nx))), C(7, 2))
    [] id = "i4" -> InfCon("i4", Times(X(1), X(nx)), Plus(CI(5), Sq(X(1))))
    [] id = "i5" -> InfCon("i5", Plus(X(1), DX(1)), CI(11))
    [] id = "i7" -> Con("i7", "ge", Plus(X(1), Sq(X(1))), CI(-2), "inf", TRUE, TRUE)          \* lower-degree term first: needs degree elevation
    [] id = "i8" -> Con("i8", "ge", Minus(X(nx), Times(X(1), X(nx))), CI(-9), "inf", TRUE, TRUE)
    [] id = "i6" -> Con("i6", "ge", Minus(X(1), Times(C(1, 2), DX(nx))), CI(-6), "inf", TRUE, TRUE)
    [] id = "iC" -> Con("iC", "ge", Minus(Inert(Times(CI(2), U(1))), Plus(X(1), DX(nx))), CI(-9), "inf", TRUE, TRUE)   \* inf_inert and inf_der in one constraint
    \* (RE) constraints on the scalar state declared after a vector-valued one; components of a vector state cannot be constrained this way
    [] id = "iE" -> InfCon("iE", Plus(X(3), Sq(X(3))), CI(9))
    [] id = "iF" -> Con("iF", "ge", Minus(Inert(U(1)), Plus(X(3), DX(3))), CI(-9), "inf", TRUE, TRUE)
    [] id = "iA" -> InfCon("iA", Minus(CI(2), X(1)), CI(5))                                    \* a constant as left operand of a subtraction
    [] id = "iB" -> Con("iB", "ge", Minus(C(1, 2), Times(X(1), X(nx))), CI(-9), "inf", TRUE, TRUE)
\* i9: two products of a state with the derivative of the other one, in both orders, in one problem
InfSeq(id, nx) == IF id = "i9" THEN <<InfCon("i9a", Times(X(1), DX(nx)), CI(20)), InfCon("i9b", Times(DX(1), X(nx)), CI(21)),
                                      InfCon("i9c", Times(X(1), Sq(X(nx))), CI(30)), InfCon("i9d", Times(Times(X(1), X(nx)), X(nx)), CI(31))>>
                  ELSE <<InfOf(id, nx)>>
MkDeclInf(s) ==
  LET N == s.N
      d0 == Rhs(s.rhs, N)
      d1 == [d0 EXCEPT !.method = Method(s.meth, N, s.M, "rk", IF s.grid = "free" THEN FreeG ELSE GridOf(s.grid, N)),
                       !.cons = InfSeq(s.ic, Len(d0.states)), !.obj = <<O1, O3>>]
  IN WithHorizon(d1, s.hz, IF s.seed % 2 = 0 THEN One ELSE Q(-1, 2), TBase(IF s.grid = "free" THEN "uni" ELSE s.grid, N))
SpaceInf == {s \in [rhs : {"R1", "R2", "R3", "RE"}, meth : {"MS", "SS"}, N : 1..(IF Thorough THEN 3 ELSE 2), M : 1..2, grid : {"uni", "geo", "fun", "free"},
                    hz : {"num", "fT"}, ic : InfIds, seed : {Seed}, cons : {<<>>}, obj : {<<>>}] :
                (s.ic \in {"i4", "i9"} => s.rhs = "R3") /\ (s.rhs = "RE" <=> s.ic \in {"iE", "iF"})}      \* with one state i4 degenerates to a true constant

IsX == Family \in {"C09", "C10", "C11", "C14"}
MaxN == IF Thorough THEN 4 ELSE 3
MaxM == IF Thorough THEN 3 ELSE 2

Dyn == [rhs : RhsIds, meth : {"MS", "SS"}, intg : {"rk", "expl_euler"}, N : 1..MaxN, M : 1..MaxM,
        grid : {"uni", "geo", "geoL", "fun"}, hz : {"num", "fT", "ft0", "fb", "pT"}, seed : {Seed, Seed + 1}]

ConSets == {<<>>} \cup {<<c>> : c \in ConIds} \cup {<<"k1", "k6">>, <<"k3", "k7", "k4">>, <<"kA", "kB", "k9">>}
ObjSets == {<<>>} \cup {<<o>> : o \in ObjIds} \cup {<<"o1", "o6">>, <<"o3", "o5", "o7">>}

Wellformed(s) ==
  /\ (s.rhs = "R7" => s.intg = "rk")                           \* intg is irrelevant for set_next
  /\ (s.rhs = "R5" => s.N * s.M <= 2 \/ s.intg = "expl_euler") \* rational blow-up
  /\ (s.rhs = "R7" => \A i \in 1..Len(s.obj) : s.obj[i] # "o6")  \* integral() needs an ODE

Space ==
  CASE Family = "C01" ->
         {s \in [rhs : RhsIds \cup {"RA", "RB", "RC", "R9"}, meth : {"MS", "SS"}, intg : {"rk", "expl_euler"}, N : 1..MaxN, M : 1..3,
                 grid : {"uni", "geo", "geoL", "fun"}, hz : {"num", "fT", "ft0", "fb", "pT"},
                 seed : {Seed, Seed + 1}, cons : {<<>>}, obj : {<<>>}] : Wellformed(s) /\ (s.M = 3 => s.grid \in {"uni", "geo"} /\ s.hz \in {"num", "fb"})}
    [] Family = "C02" ->
         {s \in [rhs : {"R1", "R2", "R3", "R4", "R6", "RD"}, meth : {"DC"}, intg : {"radau1", "radau2", "legendre1"}, N : 1..MaxN, M : 1..MaxM,
                 grid : {"uni", "geo", "fun"}, hz : {"num", "fT", "fb"},
                 seed : IF Thorough THEN {Seed, Seed + 1} ELSE {Seed}, cons : {<<>>, <<"kR", "k7">>, <<"kS", "k1">>}, obj : {<<>>, <<"o6", "o1">>}] : Wellformed(s)}
    [] Family = "C04" ->
         {s \in [rhs : {"R2", "R3", "RB", "R4"}, meth : {"MS", "SS", "DC"}, intg : {"rk", "radau2"}, N : 1..MaxN, M : 1..MaxM,
                 grid : {"uni", "fun"}, hz : {"num", "fT"},
                 seed : {Seed}, cons : ConSets \cup {<<"k8", "kR">>, <<"k7", "kS", "k2">>, <<"kV">>, <<"kV", "k6">>, <<"kM", "k1">>, <<"kMp">>, <<"kW", "kX">>, <<"kC", "kD">>}, obj : {<<>>}] :
              /\ Wellformed(s) /\ (s.meth = "DC" <=> s.intg = "radau2")
              /\ (s.rhs = "RB" <=> s.cons = <<"kM", "k1">>) /\ (s.rhs = "R4" <=> s.cons = <<"kMp">>)
              /\ (s.meth # "DC" => \A i \in 1..Len(s.cons) : s.cons[i] \notin {"kR", "kS"})}
    [] Family = "C05" ->
         {s \in [rhs : {"R1", "R3", "R4", "R7", "RA", "RF"}, meth : {"MS", "SS"}, intg : {"rk", "expl_euler"}, N : 1..MaxN, M : 1..MaxM,
                 grid : {"uni", "geo"}, hz : {"num", "fb"},
                 seed : {Seed}, cons : {<<>>}, obj : ObjSets \cup {<<"o6", "oB">>, <<"oB", "o1", "o6">>}] :
              Wellformed(s) /\ (s.rhs = "RF" <=> \E i \in 1..Len(s.obj) : s.obj[i] = "oB")}

SpaceG ==
  {s \in [meth : {"MS", "SS", "DC"}, N : 1..(IF Thorough THEN 6 ELSE 3), M : 1..(IF Thorough THEN 4 ELSE 2), grid : {"uni", "geo", "geoL", "fun", "dens", "free"},
           lt0 : BOOLEAN, lT : BOOLEAN, bnd : {"none", "minlo", "minhi", "maxhi", "maxlo"},
           hz : {"num", "fT", "fb"}, pert : 0..12, neg : BOOLEAN, seed : {Seed}, cons : {<<>>}, obj : {<<>>}] :
       /\ (s.neg => s.grid = "free" /\ s.N >= 2 /\ s.pert = 0 /\ ~s.lt0 /\ s.bnd \in {"none", "maxhi"})
       /\ (s.grid \in {"fun", "dens"} => ~s.lt0 /\ ~s.lT)      \* FunctionGrid / DensityGrid cannot be localized
       /\ (s.grid = "dens" => s.meth = "MS" /\ s.N >= 2)
       /\ (s.grid = "free" => ~s.lT)                \* FreeGrid has its own interval variables by construction; localize_t0 is an option
       /\ s.pert <= NGridVars(s)
       /\ (s.bnd # "none" => s.hz # "num" \/ s.grid = "free")    \* bounds need a variable to act on
       /\ (s.hz = "num" => s.seed = Seed)
       \* DirectCollocation shares the grid code with the shooting methods: a thinner slice (time rows of the collocation
       \* points hang on the same grid variables)
       /\ (s.meth = "DC" => s.N <= 3 /\ s.M <= 2 /\ s.bnd \in {"none", "minhi", "maxlo"} /\ s.pert <= 3)}

Code(s) == s.N + 3 * s.M + s.seed + Len(s.cons) + Len(s.obj)
           + (CASE s.grid = "uni" -> 0 [] s.grid = "geo" -> 1 [] s.grid = "geoL" -> 2 [] s.grid = "fun" -> 3 [] s.grid = "dens" -> 5 [] OTHER -> 4)
           + (CASE s.meth = "MS" -> 0 [] s.meth = "DC" -> 9 [] OTHER -> 5)

Init == sc \in {s \in (CASE Family = "C06" -> SpaceG [] Family = "C07" -> SpaceS [] IsX -> SpaceX [] Family = "C08" -> SpaceR [] Family = "C15" -> SpaceInf [] OTHER -> Space) : Code(s) % Parts = Part}
Next == UNCHANGED sc

DeclOf(s) == CASE Family = "C06" -> MkDeclG(s) [] Family = "C07" -> MkDeclS(s) [] IsX -> MkDeclX(s) [] Family = "C08" -> MkDeclR(s) [] Family = "C15" -> MkDeclInf(s) [] OTHER -> MkDecl(s)
Emit == LET d == DeclOf(sc)
            pr == IF Family = "C06" THEN MkProbeG(d, sc) ELSE IF IsX THEN MkProbeX(d, sc) ELSE IF Family = "C08" THEN FeasibleProbe(d, sc.seed)
                  ELSE IF Family = "C15" THEN FeasibleProbeG(d, sc.seed, MkProbeX(d, sc).gv) ELSE MkProbe(d, sc.seed)
            pr2 == [MkProbe(d, sc.seed + 4) EXCEPT !.gv = pr.gv]
        IN TLCSet(1, Append(TLCGet(1), [fam |-> Family, sc |-> sc, decl |-> d, probe |-> pr, pred |-> Predict(d, pr, pr2)]))

(* model-level invariant checked on every scenario: the as-built placement
   equals the declared placement when no deviation is enabled *)
PlacementOK ==
  LET d == DeclOf(sc)
  IN \A i \in 1..Len(d.cons) :
        EmittedPoints(d.cons[i], d.method.N, d.method.M, d.method.degree, {}) = DeclaredPoints(d.cons[i], d.method.N, d.method.M, d.method.degree)

(* C11 on the specification: the free-horizon problem restricted to T = c, t0 = c0 has the same
   dynamics rows, declared-constraint slacks and objective as the fixed-horizon problem *)
FreeEqualsFixed ==
  Family = "C11" =>
    LET d == DeclOf(sc)
        pr == MkProbeX(d, sc)
        dfix == [d EXCEPT !.T = Num(pr.T), !.t0 = Num(pr.t0)]
        a == Predict(d, pr, pr)
        b == Predict(dfix, pr, pr)
    IN a.gaps = b.gaps /\ a.cons = b.cons /\ a.f = b.f /\ a.grid = b.grid

Post == /\ ndJsonSerialize(IOEnv.OUT_FILE, TLCGet(1))
        /\ PrintT(<<"emitted", Len(TLCGet(1))>>)
ASSUME TLCSet(1, <<>>)
=============================================================================
