INIT Init
NEXT Next
INVARIANT Emit
INVARIANT SplineLaws
POSTCONDITION Post
CHECK_DEADLOCK FALSE
