----------------------------- MODULE ScenSpline -----------------------------
(***************************************************************************)
(* C17.a / C17.b scenario generator: orders 0..4 x N x breakpoint grids x  *)
(* sub-sampling; predictions: basis matrices, spline values for a          *)
(* coefficient vector, derivative coefficients, Greville points.           *)
(* Invariants on the specification: partition of unity, non-negativity,    *)
(* linear precision at the Greville points, and derivative coefficients    *)
(* of the identity spline are all one.                                     *)
(***************************************************************************)
EXTENDS BSplines, Json, IOUtils, TLC
VARIABLE sc
Seed == atoi(IOEnv.VERIF_SEED)
Thorough == IOEnv.VERIF_TIER = "thorough"
PV(s, a, b) == Q(((7 * a + 3 * b + 11 * s) % 9) - 4, 2)
XiOf(g, N) ==
  CASE g = "uni" -> Tup([k \in 1..N + 1 |-> Q(k - 1, N)])
    [] g = "geo" -> LET tot == Pow(R(2), N)[1] - 1 IN Tup([k \in 1..N + 1 |-> Q(Pow(R(2), k - 1)[1] - 1, tot)])
    [] g = "irr" -> Tup([k \in 1..N + 1 |-> Q((k - 1) * (k + 2), N * (N + 3))])
Space == [d : 0..4, N : 1..(IF Thorough THEN 8 ELSE 5), g : {"uni", "geo", "irr"}, sub : 0..(IF Thorough THEN 5 ELSE 3), seed : {Seed}]
Init == sc \in Space
Next == UNCHANGED sc
Coefs(s) == Tup([i \in 1..s.N + s.d |-> PV(s.seed, 1, i)])
Emit ==
  LET xi == XiOf(sc.g, sc.N)
      pts == SamplePoints(xi, sc.sub)
      c == Coefs(sc)
  IN TLCSet(1, Append(TLCGet(1),
       [sc |-> sc, xi |-> xi, coef |-> c, points |-> pts,
        basis |-> Tup([j \in 1..Len(pts) |-> BasisAt(xi, sc.d, pts[j])]),
        values |-> Tup([j \in 1..Len(pts) |-> SplineAt(xi, sc.d, c, pts[j])]),
        dcoef |-> IF sc.d >= 1 THEN DerCoef(xi, sc.d, c) ELSE <<>>,
        dvalues |-> IF sc.d >= 1 THEN Tup([j \in 1..Len(pts) |-> SplineAt(xi, sc.d - 1, DerCoef(xi, sc.d, c), pts[j])]) ELSE <<>>,
        ddvalues |-> IF sc.d >= 2 THEN Tup([j \in 1..Len(pts) |-> SplineAt(xi, sc.d - 2, DerCoef(xi, sc.d - 1, DerCoef(xi, sc.d, c)), pts[j])]) ELSE <<>>,
        greville |-> Greville(xi, sc.d),
        \* the spline at the collocation times of DirectCollocation(M=3, degree=2, radau): fractions (l + tau_j) / 3 of every interval
        \* (the end of the interval seen from inside, cf. quad2)
        colvals |-> Tup([k \in 1..sc.N |->
                      LET h == Sub(xi[k + 1], xi[k])
                          fr == <<Q(1, 9), Q(1, 3), Q(4, 9), Q(2, 3), Q(7, 9), One>>
                      IN Tup([j \in 1..6 |-> IF j = 6 /\ sc.d = 0 THEN SplineAt(xi, sc.d, c, Add(xi[k], Mul(Q(7, 9), h)))
                                              ELSE SplineAt(xi, sc.d, c, Add(xi[k], Mul(fr[j], h)))])]),
        \* integral of c(t)^2 over normalised time by the radau-2 collocation quadrature on every interval (nodes 1/3 and 1,
        \* weights 3/4 and 1/4): what DirectCollocation(degree=2, scheme='radau') makes of ocp.integral(v^2) for a B-spline signal v
        quad2 |-> SumSeq(Tup([k \in 1..sc.N |->
                     LET h == Sub(xi[k + 1], xi[k])
                         v1 == SplineAt(xi, sc.d, c, Add(xi[k], Mul(Q(1, 3), h)))
                         \* (end of the interval seen from inside: a degree-0 spline is constant on the interval and jumps at its end)
                         v2 == IF sc.d = 0 THEN v1 ELSE SplineAt(xi, sc.d, c, xi[k + 1])
                     IN Mul(h, Add(Mul(Q(3, 4), Mul(v1, v1)), Mul(Q(1, 4), Mul(v2, v2))))]))]))
OkOrBad(a, b) == IsBad(a) \/ IsBad(b) \/ Eq(a, b)
SplineLaws ==
  LET xi == XiOf(sc.g, sc.N)
      pts == SamplePoints(xi, sc.sub)
      g == Greville(xi, sc.d)
  IN /\ \A j \in 1..Len(pts) :
          LET b == BasisAt(xi, sc.d, pts[j])
          IN /\ OkOrBad(SumSeq(b), One)                                   \* partition of unity
             /\ \A i \in 1..Len(b) : IsBad(b[i]) \/ Leq(Zero, b[i])        \* non-negative
             /\ (sc.d >= 1 => OkOrBad(Dot(g, b), pts[j]))                  \* linear precision at the Greville points
     /\ (sc.d >= 1 => \A i \in 1..Len(g) - 1 : OkOrBad(DerCoef(xi, sc.d, g)[i], One))
Post == /\ ndJsonSerialize(IOEnv.OUT_FILE, TLCGet(1)) /\ PrintT(<<"emitted", Len(TLCGet(1))>>)
ASSUME TLCSet(1, <<>>)
=============================================================================
