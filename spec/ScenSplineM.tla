----------------------------- MODULE ScenSplineM -----------------------------
(***************************************************************************)
(* C17.c: SplineMethod on integrator chains  x1' = x2, ..., x_{L-1}' = u.   *)
(* The highest member x1 is a B-spline of degree d = L-1 on the control-    *)
(* grid breakpoints with N+d coefficients (the decision variables); every   *)
(* lower member is the analytic derivative in physical time, so the chain   *)
(* dynamics hold identically.  Predictions: samples of every member on the  *)
(* control grid and on refined grids, slacks of a path constraint at every  *)
(* (refined) grid point and of boundary constraints, Greville times of the  *)
(* coefficients.                                                            *)
(***************************************************************************)
EXTENDS BSplines, Json, IOUtils, TLC
VARIABLE sc
Seed == atoi(IOEnv.VERIF_SEED)
Thorough == IOEnv.VERIF_TIER = "thorough"
PV(s, a, b) == Q(((7 * a + 3 * b + 11 * s) % 9) - 4, 2)
XiOf(g, N) ==
  CASE g = "uni" -> Tup([k \in 1..N + 1 |-> Q(k - 1, N)])
    [] g = "geo" -> LET tot == Pow(R(2), N)[1] - 1 IN Tup([k \in 1..N + 1 |-> Q(Pow(R(2), k - 1)[1] - 1, tot)])
Space == [L : 2..4, N : 1..(IF Thorough THEN 5 ELSE 3), g : {"uni", "geo"}, refine : 1..(IF Thorough THEN 3 ELSE 2), T : {One, R(2)}, t0 : {Zero, Q(1, 2)}, seed : {Seed},
          hz : {"num", "fT"},
          incF : BOOLEAN, incL : BOOLEAN]      \* include_first / include_last of the path constraint      \* fT: the horizon is a decision variable (FreeTime) whose value at the probe is T: same predictions
Init == sc \in {s \in Space : (~s.incF \/ ~s.incL) => (s.hz = "num" /\ s.T = One)}
Next == UNCHANGED sc
RECURSIVE MemberCoef(_, _, _, _, _)
\* coefficients of chain member i (0 = highest) : i-fold derivative in physical time
MemberCoef(xi, d, c, T, i) == IF i = 0 THEN c ELSE VScale(Inv(T), DerCoef(xi, d - i + 1, MemberCoef(xi, d, c, T, i - 1)))
Emit ==
  LET d == sc.L - 1
      xi == XiOf(sc.g, sc.N)
      c == Tup([i \in 1..sc.N + d |-> PV(sc.seed, 1, i)])
      pts == SamplePoints(xi, sc.refine - 1)
      ctl == SamplePoints(xi, 0)
      mem(i) == MemberCoef(xi, d, c, sc.T, i)
      val(i, p) == SplineAt(xi, d - i, mem(i), p)
  IN TLCSet(1, Append(TLCGet(1),
       [sc |-> sc, xi |-> xi, coef |-> c,
        times |-> Tup([j \in 1..Len(pts) |-> Add(sc.t0, Mul(sc.T, pts[j]))]),
        control |-> Tup([i \in 1..sc.L |-> Tup([j \in 1..Len(ctl) |-> val(i - 1, ctl[j])])]),
        refined |-> Tup([i \in 1..sc.L |-> Tup([j \in 1..Len(pts) |-> val(i - 1, pts[j])])]),
        \* path constraint x1 + x2 <= 9 imposed at every refined point; boundary constraints at t0 and tf
        \* (without the first / last point when include_first / include_last say so)
        path |-> LET all == Tup([j \in 1..Len(pts) |-> Sub(R(9), Add(val(0, pts[j]), val(1, pts[j])))])
                     lo == IF sc.incF THEN 1 ELSE 2
                     hi == IF sc.incL THEN Len(pts) ELSE Len(pts) - 1
                 IN Tup([j \in 1..(hi - lo + 1) |-> all[lo + j - 1]]),
        \* a second path constraint with next():  next(x1) - x1 <= 6  at the nodes 0..N-1 (the instance at the final node would
        \* reach outside the horizon); it must not change where the first one is imposed
        step |-> Tup([k \in 1..sc.N |-> Sub(R(6), Sub(val(0, ctl[k + 1]), val(0, ctl[k])))]),
        \* a third one with prev() and explicit time:  x1 - prev(x1) <= 6 + t  at the nodes 1..N, with the time of that node
        stepb |-> Tup([k \in 1..sc.N |-> Sub(Add(R(6), Add(sc.t0, Mul(sc.T, ctl[k + 1]))), Sub(val(0, ctl[k + 1]), val(0, ctl[k])))]),
        bnd0 |-> Sub(val(0, Zero), Q(1, 2)), bndf |-> Sub(val(1, One), R(-1)),
        \* grid='inf' constraints on two chain members (different numbers of coefficients, different constant terms):
        \*   x1 + 1/2 <= 7    and    -6 <= x2 - 1/2 <= 3/2
        \* a B-spline lies in the convex hull of its coefficients, so the bound on every coefficient of the member is the
        \* certificate: one row (side) per coefficient
        inf |-> [m0 |-> Tup([j \in 1..Len(mem(0)) |-> Sub(R(7), Add(mem(0)[j], Q(1, 2)))]),
                 m1hi |-> Tup([j \in 1..Len(mem(1)) |-> Sub(Q(3, 2), Sub(mem(1)[j], Q(1, 2)))]),
                 m1lo |-> Tup([j \in 1..Len(mem(1)) |-> Sub(Sub(mem(1)[j], Q(1, 2)), R(-6))])],
        greville |-> Tup([i \in 1..sc.N + d |-> Add(sc.t0, Mul(sc.T, Greville(xi, d)[i]))]),
        \* objective:  at_tf(x1)^2 + sum(u^2) + integral(x2, grid='control')   (Mayer term, node sum over the N intervals,
        \* interval-length weighted left sum) -- C05 for SplineMethod
        \*            + integral(x1 * x2): SplineMethod has no integrator; its quadrature is the composite open Newton-Cotes
        \*              (Milne) rule with two panels per control interval,  H/6 (2 f1 - f2 + 2 f3 + 2 f5 - f6 + 2 f7)  at the eighths
        obj |-> LET p8 == SamplePoints(xi, 7)
                    f(k, j) == Mul(val(0, p8[(k - 1) * 8 + j + 1]), val(1, p8[(k - 1) * 8 + j + 1]))
                    milne(k) == Mul(Mul(Mul(sc.T, Sub(ctl[k + 1], ctl[k])), Q(1, 6)),
                                    Add(Add(Sub(Mul(R(2), f(k, 1)), f(k, 2)), Mul(R(2), f(k, 3))),
                                        Add(Sub(Mul(R(2), f(k, 5)), f(k, 6)), Mul(R(2), f(k, 7)))))
                IN Add(Add(Add(Mul(val(0, One), val(0, One)),
                               SumSeq(Tup([k \in 1..sc.N |-> Mul(val(d, ctl[k]), val(d, ctl[k]))]))),
                           SumSeq(Tup([k \in 1..sc.N |-> Mul(Mul(sc.T, Sub(ctl[k + 1], ctl[k])), val(1, ctl[k]))]))),
                       Add(SumSeq(Tup([k \in 1..sc.N |-> milne(k)])),
                           \* + sum(dx'dx) with dx = next([x1; x2]) - [x1; x2]: a rate penalty, one term per interval (nodes k+1 and k)
                           SumSeq(Tup([k \in 1..sc.N |->
                                  LET d0 == Sub(val(0, ctl[k + 1]), val(0, ctl[k]))
                                      d1 == Sub(val(1, ctl[k + 1]), val(1, ctl[k]))
                                  IN Add(Mul(d0, d0), Mul(d1, d1))])))),
        \* objective term of its own:  integral(next(x1) * x2, grid='control')  = sum over the N intervals of  dt_k x1(t_k+1) x2(t_k)
        objn |-> SumSeq(Tup([k \in 1..sc.N |-> Mul(Mul(sc.T, Sub(ctl[k + 1], ctl[k])), Mul(val(0, ctl[k + 1]), val(1, ctl[k])))]))]))
Post == /\ ndJsonSerialize(IOEnv.OUT_FILE, TLCGet(1)) /\ PrintT(<<"emitted", Len(TLCGet(1))>>)
ASSUME TLCSet(1, <<>>)
=============================================================================
