INIT Init
NEXT Next
INVARIANT Emit
INVARIANT Compositional
POSTCONDITION Post
CHECK_DEADLOCK FALSE
