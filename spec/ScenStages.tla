----------------------------- MODULE ScenStages -----------------------------
(***************************************************************************)
(* C12 scenario generator: lists of 1..3 stages of different models,       *)
(* methods, grids, N, horizon kinds; coupling patterns; stages declared    *)
(* directly or cloned from a template with overridden t0/T.  The           *)
(* prediction of a cloned stage is *by definition* that of the direct      *)
(* declaration with the same content (clone == direct).                    *)
(* The invariant Compositional checks on the specification that the        *)
(* multi-stage objective and every stage's rows do not depend on the       *)
(* sibling stages (each stage's prediction equals its stand-alone one).    *)
(***************************************************************************)
EXTENDS Stages, Catalog, Json, IOUtils
VARIABLE sc
Seed == atoi(IOEnv.VERIF_SEED)
Part == atoi(IOEnv.PART)
Parts == atoi(IOEnv.PARTS)
Thorough == IOEnv.VERIF_TIER = "thorough"
PV(s, a, b, c) == Q(((7 * a + 3 * b + 5 * c + 11 * s) % 9) - 4, 2)

\* stage kinds: model, method, N, M, grid
KindIds == {"A", "B", "C", "D", "E", "F"}
KindOf(id) ==
  CASE id = "A" -> [rhs |-> "R1", meth |-> "MS", intg |-> "rk", N |-> 2, M |-> 1, geo |-> FALSE]
    [] id = "B" -> [rhs |-> "R2", meth |-> "SS", intg |-> "rk", N |-> 1, M |-> 2, geo |-> FALSE]       \* time in the ODE
    [] id = "C" -> [rhs |-> "R3", meth |-> "MS", intg |-> "expl_euler", N |-> 3, M |-> 1, geo |-> TRUE]
    [] id = "E" -> [rhs |-> "R7", meth |-> "MS", intg |-> "rk", N |-> 2, M |-> 2, geo |-> FALSE]        \* discrete time, uses DT / DT_control
    [] id = "F" -> [rhs |-> "RA", meth |-> "MS", intg |-> "rk", N |-> 2, M |-> 1, geo |-> FALSE]        \* both kinds of per-interval parameter
    [] id = "D" -> [rhs |-> "R4", meth |-> "DC", intg |-> "radau2", N |-> 2, M |-> 1, geo |-> FALSE]

StageDecl(kid, hz, t0v, Tv, withInt) ==
  LET k == KindOf(kid)
      d0 == Rhs(k.rhs, k.N)
      g == IF k.geo THEN Geometric(R(2), k.N, FALSE) ELSE Uniform
      d1 == [d0 EXCEPT !.method = IF k.meth = "DC" THEN MethodDC(k.N, k.M, "radau", 2, g) ELSE Method(k.meth, k.N, k.M, k.intg, g),
                       !.cons = <<K1, K4>>,
                       !.obj = IF withInt THEN <<O1, IntQ(1), O8>> ELSE <<O1, O3>>,
                       !.quads = IF withInt THEN <<Q1>> ELSE <<>>]
      d1q == d1
  IN CASE hz = "num" -> [d1 EXCEPT !.t0 = Num(t0v), !.T = Num(Tv)]
       [] hz = "fT"  -> [d1 EXCEPT !.t0 = Num(t0v), !.T = Free(Tv)]
       [] hz = "fb"  -> [d1 EXCEPT !.t0 = Free(t0v), !.T = Free(Tv)]

ProbeOf(d, s) ==
  LET N == d.method.N
  IN [X |-> Tup([k \in 1..N + 1 |-> Tup([i \in 1..Len(d.states) |-> PV(s, 1, k, i)])]),
      U |-> Tup([k \in 1..N |-> Tup([i \in 1..Len(d.controls) |-> PV(s, 2, k, i)])]),
      V |-> Tup([i \in 1..Len(d.vars) |-> Tup([c \in 1..PCols(d.vars[i].kind, N) |-> PV(s, 3, i, c)])]),
      T |-> d.T.v, t0 |-> d.t0.v, gv |-> [Tl |-> <<>>, t0l |-> <<>>], pw |-> Q(3, 2),
      XI |-> Tup([k \in 1..N |-> Tup([l \in 1..d.method.M |-> Tup([i \in 1..Len(d.states) |-> PV(s, 4, k + l, i)])])]),
      XR |-> Tup([k \in 1..N |-> Tup([l \in 1..d.method.M |-> Tup([j \in 1..d.method.degree |-> Tup([i \in 1..Len(d.states) |-> PV(s, 5 + j, k + 2 * l, i)])])])]),
      ZR |-> Tup([k \in 1..N |-> Tup([l \in 1..d.method.M |-> Tup([j \in 1..d.method.degree |-> <<>>])])])]

\* coupling patterns between consecutive stages
Couple(pat, n) ==
  CASE pat = "none"  -> <<>>
    [] pat = "chain" -> Tup([s \in 1..n - 1 |-> [cid |-> "pc" \o ToString(s), rel |-> "eq", lhs |-> St(s + 1, AtT0(X(1))), rhs |-> St(s, AtTf(X(1)))]])
    [] pat = "time"  -> Tup([s \in 1..n - 1 |-> [cid |-> "pt" \o ToString(s), rel |-> "eq", lhs |-> St(s + 1, T0), rhs |-> St(s, TF)]])
                        \o <<[cid |-> "pT", rel |-> "le", lhs |-> St(n, TF), rhs |-> CI(20)]>>
ParentObj(pat, n) == IF pat = "time" THEN <<Times(CI(3), St(n, TF))>> ELSE <<>>
\* the parent owns a global variable and a global parameter of its own (used in a parent constraint and objective term)
ParentExtraCons(n) == <<[cid |-> "pw", rel |-> "le", lhs |-> St(n, AtTf(X(1))), rhs |-> Plus(CI(30), Times(PW, PQ))]>>
ParentExtraObj == <<Times(CI(5), Sq(Minus(PW, Times(CI(2), PQ))))>>

\* clones of one template get their own parameter values (set_value on the clone): shift the values of clone i by i-1
ShiftParams(d, k) == [d EXCEPT !.params = Tup([j \in 1..Len(d.params) |-> [kind |-> d.params[j].kind,
                                              val |-> Tup([c \in 1..Len(d.params[j].val) |-> Add(d.params[j].val[c], R(k))])]])]
MkMulti(s) ==
  LET n == Len(s.kinds)
      sd(i) == [StageDecl(IF s.clone THEN s.kinds[1] ELSE s.kinds[i], s.hz,
                          R(i - 1), IF i % 2 = 1 THEN R(KindOf(IF s.clone THEN s.kinds[1] ELSE s.kinds[i]).N) ELSE R(2), s.withInt) EXCEPT !.qstates = s.qst]
  IN [stages |-> Tup([i \in 1..n |-> IF s.clone THEN ShiftParams(sd(i), i - 1) ELSE sd(i)]),
      pcons |-> Couple(s.pat, n) \o (IF s.pown THEN ParentExtraCons(n) ELSE <<>>),
      pobj |-> ParentObj(s.pat, n) \o (IF s.pown THEN ParentExtraObj ELSE <<>>), clone |-> s.clone, pown |-> s.pown,
      \* history variant (C12.h): after a first transcription the stage-1 parameter (if any) is set again and stage 1 gets one more constraint
      reset |-> s.reset, stagefirst |-> s.stagefirst,
      \* where the coupling constraints are declared: on the parent, or on the later / earlier of the two stages they connect
      \* (the NLP is the same: a point constraint is one row wherever it was declared)
      valonly |-> s.valonly,      \* the history consists of set_value calls only: the live NLP is updated in place, nothing re-transcribes
      pon |-> s.pon,
      \* history variant: the last stage is added (directly or as a clone) only after the others have been transcribed once
      late |-> s.late]

KindSeqs == {<<a>> : a \in KindIds} \cup {<<a, b>> : a \in KindIds, b \in KindIds}
            \cup (IF Thorough THEN {<<a, b, c>> : a \in {"A", "B"}, b \in KindIds, c \in {"C", "D"}} ELSE {<<"A", "B", "D">>, <<"B", "C", "A">>})
Space == {s \in [kinds : KindSeqs, hz : {"num", "fT", "fb"}, pat : {"none", "chain", "time"}, clone : BOOLEAN, withInt : BOOLEAN,
                 reset : BOOLEAN, stagefirst : BOOLEAN, pown : BOOLEAN, pon : {"parent", "later", "earlier"}, late : BOOLEAN, valonly : BOOLEAN, qst : BOOLEAN, seed : {Seed}] :
            /\ (s.valonly => s.reset)
            \* the integrand is also declared as a quadrature state of the template (state(quad=True)): every clone carries it
            /\ (s.qst => s.clone /\ s.withInt /\ ~s.late /\ s.pon = "parent" /\ ~s.pown /\ ~s.stagefirst)
            /\ (s.late => Len(s.kinds) >= 2 /\ s.pon = "parent" /\ ~s.pown /\ ~s.reset /\ ~s.stagefirst /\ s.pat = "none" /\ s.clone)      \* nothing else invalidates after the stage is added
            /\ (s.pon # "parent" => s.pat = "chain" /\ ~s.pown /\ ~s.reset /\ ~s.stagefirst /\ Len(s.kinds) >= 2)
            /\ (s.pat = "time" => s.hz = "fb")
            /\ (s.stagefirst => ~s.reset /\ s.withInt)
            /\ (s.pown => (s.reset => s.valonly) /\ ~s.stagefirst /\ s.pat # "time")       \* the first transcribing call is stage.sample(...) on a sub-stage
            /\ (s.clone => \A i \in 1..Len(s.kinds) : s.kinds[i] = s.kinds[1])
            /\ (s.reset => KindOf(s.kinds[1]).rhs \in {"R2", "R3", "R4", "RA"} /\ ~s.clone)
            /\ (\A i \in 1..Len(s.kinds) : s.kinds[i] = "F" => i = 1 /\ Len(s.kinds) <= 2)
            /\ (s.withInt => \A i \in 1..Len(s.kinds) : KindOf(s.kinds[i]).rhs # "R7")
            /\ (s.reset => KindOf(s.kinds[1]).rhs # "R7")}
Code(s) == (IF s.valonly THEN 1 ELSE 0) + (IF s.late THEN 3 ELSE 0) + (CASE s.pon = "parent" -> 0 [] s.pon = "later" -> 1 [] OTHER -> 2) + (IF s.pown THEN 1 ELSE 0) + (IF s.stagefirst THEN 2 ELSE 0) + Len(s.kinds) + (IF s.clone THEN 3 ELSE 0) + (IF s.withInt THEN 1 ELSE 0) + (IF s.qst THEN 6 ELSE 0) + (IF s.reset THEN 5 ELSE 0)
           + (CASE s.hz = "num" -> 0 [] s.hz = "fT" -> 1 [] OTHER -> 2) + (CASE s.pat = "none" -> 0 [] s.pat = "chain" -> 7 [] OTHER -> 11)
           + (CASE s.kinds[1] = "A" -> 0 [] s.kinds[1] = "B" -> 1 [] s.kinds[1] = "C" -> 2 [] s.kinds[1] = "E" -> 4 [] s.kinds[1] = "F" -> 5 [] OTHER -> 3)
Init == sc \in {s \in Space : Code(s) % Parts = Part}
Next == UNCHANGED sc

\* the declaration the harness reaches after the C12.h history: new parameter value, one more constraint and two more objective terms (Mayer, integral) on stage 1
AfterReset(md) ==
  IF ~md.reset THEN md
  ELSE IF md.valonly
  THEN [md EXCEPT !.stages[1].params = Tup([j \in 1..Len(@) |-> [kind |-> @[j].kind, val |-> Tup([c \in 1..Len(@[j].val) |-> Add(@[j].val[c], R(1 + j))])]])]
  ELSE [md EXCEPT !.stages[1].params = Tup([j \in 1..Len(@) |-> [kind |-> @[j].kind, val |-> Tup([c \in 1..Len(@[j].val) |-> Add(@[j].val[c], R(1 + j))])]]),      \* every parameter of stage 1 gets a new value
                  !.stages[1].cons = Append(@, K2),
                  !.stages[1].quads = Append(@, Q2),
                  !.stages[1].obj = Append(Append(@, O2), IntQ(Len(md.stages[1].quads) + 1)),      \* a Mayer term and an integral term
                  !.stages[1].rhs[1] = Plus(@, CI(1))]          \* and the first state's derivative is declared again

Emit == LET md == MkMulti(sc)
            mdf == AfterReset(md)
            prs == Tup([i \in 1..Len(md.stages) |-> ProbeOf(md.stages[i], sc.seed + i)])
            prs2 == Tup([i \in 1..Len(md.stages) |-> ProbeOf(md.stages[i], sc.seed + i + 4)])
        IN TLCSet(1, Append(TLCGet(1), [sc |-> sc, decl |-> md, final |-> mdf, probes |-> prs, pred |-> MultiPredict(mdf, prs, prs2)]))

Compositional ==
  LET md == MkMulti(sc)
      prs == Tup([i \in 1..Len(md.stages) |-> ProbeOf(md.stages[i], sc.seed + i)])
      mp == MultiPredict(md, prs, prs)
      alone(i) == MultiPredict([stages |-> <<md.stages[i]>>, pcons |-> <<>>, pobj |-> <<>>], <<prs[i]>>, <<prs[i]>>)
  IN /\ \A i \in 1..Len(md.stages) : mp.stages[i] = alone(i).stages[1]
     /\ (md.pobj = <<>> => mp.f = SumSeq(Tup([i \in 1..Len(md.stages) |-> alone(i).f])))
Post == /\ ndJsonSerialize(IOEnv.OUT_FILE, TLCGet(1)) /\ PrintT(<<"emitted", Len(TLCGet(1))>>)
ASSUME TLCSet(1, <<>>)
=============================================================================
