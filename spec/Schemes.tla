------------------------------ MODULE Schemes ------------------------------
(***************************************************************************)
(* One-step maps of the explicit built-in schemes of the shooting methods  *)
(* (C01), with quadrature outputs (C05) and dense-output coefficients      *)
(* (C08, C15).                                                             *)
(*                                                                         *)
(* F(x, t) is the right-hand side of the *augmented* system: it maps the   *)
(* nx states and the absolute time to nx + nq rationals (state             *)
(* derivatives followed by quadrature integrands).                         *)
(* G(x, t, h, hc) is a discrete-time update rule (set_next): nx + nq       *)
(* rationals (next state, quadrature increments).                          *)
(***************************************************************************)
EXTENDS Rat

Head_(r, nx) == SubSeq(r, 1, nx)
Tail_(r, nx) == SubSeq(r, nx + 1, Len(r))

(* classical Runge-Kutta 4.  coef: x(t0+s) = c[1] + c[2] s + ... + c[5] s^4 *)
StepRK(F(_, _), nx, x, t, h) ==
  LET h2 == Mul(h, Q(1, 2))
      k1 == F(x, t)
      k2 == F(VAdd(x, VScale(h2, Head_(k1, nx))), Add(t, h2))
      k3 == F(VAdd(x, VScale(h2, Head_(k2, nx))), Add(t, h2))
      k4 == F(VAdd(x, VScale(h, Head_(k3, nx))), Add(t, h))
      inc == VScale(Mul(h, Q(1, 6)), VAdd(VAdd(k1, VScale(R(2), k2)), VAdd(VScale(R(2), k3), k4)))
      ih == Inv(h)
      f1 == VScale(ih, VSub(k2, k1))
      f2 == VScale(Mul(Q(2, 3), Mul(ih, ih)), VSub(k3, k2))
      f3 == VScale(Mul(Q(1, 6), Mul(ih, Mul(ih, ih))), VAdd(VSub(k4, VScale(R(2), k3)), k1))
  IN [xf |-> VAdd(x, Head_(inc, nx)),
      qf |-> Tail_(inc, nx),
      \* dense output of the states (5 coefficient vectors) and of the quadrature integrand (4)
      coef |-> <<x, Head_(k1, nx), Head_(f1, nx), Head_(f2, nx), Head_(f3, nx)>>,
      coefq |-> <<Tail_(k1, nx), Tail_(f1, nx), Tail_(f2, nx), Tail_(f3, nx)>>]

StepEuler(F(_, _), nx, x, t, h) ==
  LET k == F(x, t)
  IN [xf |-> VAdd(x, VScale(h, Head_(k, nx))),
      qf |-> VScale(h, Tail_(k, nx)),
      coef |-> <<x, Head_(k, nx)>>,
      coefq |-> <<Tail_(k, nx)>>]

StepNext(G(_, _, _, _), nx, x, t, h, hc) ==
  LET r == G(x, t, h, hc)
  IN [xf |-> Head_(r, nx), qf |-> Tail_(r, nx), coef |-> <<>>, coefq |-> <<>>]

(***************************************************************************)
(* M successive steps over one control interval [t, t + hc], h = hc / M.   *)
(* Result: xs = start state of each step (M entries), xf = end state,      *)
(* qs = accumulated quadrature *before* each step relative to q0 (M),      *)
(* qf = accumulated quadrature at the end, coefs / coefqs per step.        *)
(***************************************************************************)
RECURSIVE Steps(_, _, _, _, _, _, _, _)
Steps(S(_, _, _), x, q, t, h, j, M, acc) ==
  IF j > M THEN [xs |-> acc.xs, qs |-> acc.qs, coefs |-> acc.coefs, coefqs |-> acc.coefqs, xf |-> x, qf |-> q]
  ELSE LET r == S(x, t, h)
       IN Steps(S, r.xf, VAdd(q, r.qf), Add(t, h), h, j + 1, M,
                [xs |-> Append(acc.xs, x), qs |-> Append(acc.qs, q),
                 coefs |-> Append(acc.coefs, r.coef), coefqs |-> Append(acc.coefqs, r.coefq)])

Propagate(S(_, _, _), x, q0, t, hc, M) ==
  Steps(S, x, q0, t, Mul(hc, Q(1, M)), 1, M, [xs |-> <<>>, qs |-> <<>>, coefs |-> <<>>, coefqs |-> <<>>])

(* polynomial with vector coefficients evaluated at s *)
RECURSIVE PolyVecFrom(_, _, _)
PolyVecFrom(c, s, i) ==
  IF i = Len(c) THEN c[i] ELSE VAdd(c[i], VScale(s, PolyVecFrom(c, s, i + 1)))
PolyVec(c, s) == PolyVecFrom(c, s, 1)
=============================================================================
