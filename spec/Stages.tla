------------------------------- MODULE Stages -------------------------------
(***************************************************************************)
(* Multi-stage OCPs (C12).  A multi-stage declaration is                   *)
(*   [stages : seq of stage declarations (Catalog layout),                 *)
(*    pcons  : parent-level coupling constraints [cid, rel, lhs, rhs],     *)
(*    pobj   : parent-level objective terms]                               *)
(* Parent expressions are built from constants, +,-,*, and St(s, e): the   *)
(* non-signal expression e (at_t0/at_tf/integral/T/t0/tf/global symbols)   *)
(* of stage s.                                                             *)
(* The meaning is the disjoint union: every stage is transcribed on its    *)
(* own grid, method, variables and parameters exactly as if it were alone  *)
(* (Nlp!Predict), plus the parent rows, and the objective is the sum.      *)
(***************************************************************************)
EXTENDS Nlp

St(s, e) == [op |-> "st", s |-> s, a |-> e]
PW == [op |-> "pw"]      \* the parent's own global variable
PQ == [op |-> "pq"]      \* the parent's own global parameter

RECURSIVE EvalP(_, _)
EvalP(e, Ws) ==
  CASE e.op = "c"   -> e.v
    [] e.op = "pw"  -> Ws[1].pr.pw
    [] e.op = "pq"  -> Ws[1].d.pq
    [] e.op = "st"  -> EvalW(e.a, Ws[e.s], EnvNS(Ws[e.s]), -1)
    [] e.op = "add" -> Add(EvalP(e.a, Ws), EvalP(e.b, Ws))
    [] e.op = "sub" -> Sub(EvalP(e.a, Ws), EvalP(e.b, Ws))
    [] e.op = "mul" -> Mul(EvalP(e.a, Ws), EvalP(e.b, Ws))
    [] e.op = "neg" -> Neg(EvalP(e.a, Ws))
    [] e.op = "sq"  -> LET w == EvalP(e.a, Ws) IN Mul(w, w)

PSlack(c, Ws) ==
  CASE c.rel = "le" -> Sub(EvalP(c.rhs, Ws), EvalP(c.lhs, Ws))
    [] c.rel = "ge" -> Sub(EvalP(c.lhs, Ws), EvalP(c.rhs, Ws))
    [] c.rel = "eq" -> Sub(EvalP(c.lhs, Ws), EvalP(c.rhs, Ws))

MultiPredict(md, prs, prs2) ==
  LET n == Len(md.stages)
      Ws == Tup([s \in 1..n |-> World(md.stages[s], prs[s])])
      Ws2 == Tup([s \in 1..n |-> World(md.stages[s], prs2[s])])
      per == Tup([s \in 1..n |-> Predict(md.stages[s], prs[s], prs2[s])])
  IN [stages |-> per,
      pcons |-> Tup([i \in 1..Len(md.pcons) |->
                  [cid |-> md.pcons[i].cid, rel |-> md.pcons[i].rel, s |-> PSlack(md.pcons[i], Ws),
                   const |-> PSlack(md.pcons[i], Ws) = PSlack(md.pcons[i], Ws2)]]),
      f |-> Add(SumSeq(Tup([s \in 1..n |-> per[s].f])), SumSeq(Tup([i \in 1..Len(md.pobj) |-> EvalP(md.pobj[i], Ws)])))]
=============================================================================
