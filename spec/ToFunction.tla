----------------------------- MODULE ToFunction -----------------------------
(***************************************************************************)
(* C19: to_function(name, args, results) reproduces the imperative         *)
(* pipeline.  Abstract state: the current values of the parameters (p, q)  *)
(* and of the guesses (gx for the states, gu for the controls) of the OCP; *)
(* fn: the function objects created so far, each remembering the argument  *)
(* list and the values current at its creation (several may coexist, also *)
(* with the same name and the same expressions: each is a fresh snapshot). *)
(* Solve is uninterpreted: a solve is identified with the data it works    *)
(* on.  The invariant states the property: calling F(vals) works on the    *)
(* same data as: set the listed arguments imperatively (on an OCP whose    *)
(* other values are those current when F was made), then solve.            *)
(***************************************************************************)
EXTENDS Integers, Sequences, FiniteSets, TLC
VARIABLES cur, fn, last
vars == <<cur, fn, last>>
ArgNames == {"p", "q", "gx", "gu"}
MCArgs == {"p", "q", "gx"}        \* the model-checked instance uses three of the four arguments (same rules, smaller space)
Vals == {1, 2}
Init == cur = [p |-> 1, q |-> 1, gx |-> 0, gu |-> 0] /\ fn = <<>> /\ last = [kind |-> "none"]
SetCur(a, v) == cur' = [cur EXCEPT ![a] = v] /\ UNCHANGED <<fn, last>>
MaxFn == 2
Make(args) == /\ Len(fn) < MaxFn /\ fn' = Append(fn, [args |-> args, snap |-> cur]) /\ UNCHANGED <<cur, last>>
DataOfCall(f, vals) == [a \in ArgNames |-> IF a \in f.args THEN vals[a] ELSE f.snap[a]]
Call(i, vals) == /\ i \in DOMAIN fn
                 /\ last' = [kind |-> "call", i |-> i, vals |-> vals, data |-> DataOfCall(fn[i], vals)]
                 /\ UNCHANGED <<cur, fn>>
Next == \/ \E a \in MCArgs, v \in Vals : SetCur(a, v)
        \/ \E args \in SUBSET MCArgs : args # {} /\ Make(args)
        \/ \E i \in 1..MaxFn, vals \in [ArgNames -> Vals] : vals.gu = 1 /\ Call(i, vals)
Spec == Init /\ [][Next]_vars
\* the imperative pipeline on an OCP in the state at creation, with the listed arguments assigned
Imperative(f, vals) == [a \in ArgNames |-> IF a \in f.args THEN vals[a] ELSE f.snap[a]]
Reproduces == last.kind = "call" => last.data = Imperative(fn[last.i], last.vals)
\* later imperative updates of the OCP do not leak into an existing function object
Isolated == [][\A a \in MCArgs, v \in Vals : SetCur(a, v) => fn' = fn]_vars
\* a function object made now snapshots the values current now, whatever was made before (no stale re-use)
FreshSnapshot == [][Len(fn') > Len(fn) => fn'[Len(fn')].snap = cur]_vars
=============================================================================
