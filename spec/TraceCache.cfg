INIT InitT
NEXT StepT
CONSTANT Devs <- NoDevs
INVARIANT Report
INVARIANT CacheCurrent
POSTCONDITION Post
CHECK_DEADLOCK FALSE
