----------------------------- MODULE TraceCache -----------------------------
(***************************************************************************)
(* Direction B on arbitrary workloads (the repository's own tests and      *)
(* examples, and a random driver over the whole public API): traces        *)
(* recorded by harness/gentrace.py are validated against the generic       *)
(* cache protocol Cache.tla.  Every event carries the class of the         *)
(* operation, the outcome, is_transcribed after the call, the number of    *)
(* transcriptions so far and the sizes of the declared lists.              *)
(* Verdicts are total: an event the protocol does not allow is recorded    *)
(* with its clause, the state is re-synchronised with the observation and  *)
(* the rest of the trace is still checked.  One TLC run validates many     *)
(* traces (one initial state per trace).                                   *)
(***************************************************************************)
EXTENDS Cache, Sequences, FiniteSets, Json, IOUtils
NoDevs == {}

Traces == ndJsonDeserialize(IOEnv.TRACE_FILE)
VARIABLES tid, l, dcl, verdict
tvars == <<cvars, tid, l, dcl, verdict>>

Ev == Traces[tid].events[l]
Ok(e) == e.out = "ok"
Apply(e) ==
  CASE e.cls = "inval"   -> IF Ok(e) THEN Inval ELSE RaiseEdit
    [] e.cls = "inplace" -> IF Ok(e) THEN InPlace ELSE RaiseEdit
    [] e.cls = "query"   -> IF Ok(e) THEN Query ELSE RaiseQuery
    [] e.cls = "solve"   -> IF Ok(e) THEN Solve ELSE RaiseQuery
    [] e.cls = "untr"    -> IF Ok(e) THEN Untr ELSE (Untr \/ UNCHANGED cvars)
    [] e.cls = "retr"    -> IF Ok(e) THEN Retr ELSE RaiseQuery
\* the logged fields select the behaviour of the protocol
Bind(e) == live' = (IF e.tflag THEN ver' ELSE None) /\ ntr' = e.ntr
Good(e) == Apply(e) /\ Bind(e)
Resync(e) == /\ ver' = IF e.cls \in {"inval", "inplace"} /\ Ok(e) THEN ver + 1 ELSE ver
             /\ Bind(e)
\* which way the observation departs from the protocol
Clause(e) ==
  IF e.cls = "inval" /\ Ok(e) /\ e.tflag THEN "C13.g:edit-keeps-live-nlp"
  ELSE IF e.cls \in {"query", "solve"} /\ Ok(e) /\ ~e.tflag THEN "C13.g:answer-without-live-nlp"
  ELSE IF e.cls \in {"query", "solve"} /\ Ok(e) /\ live = ver /\ e.ntr # ntr THEN "C13.g:needless-transcription"
  ELSE IF e.cls \in {"query", "solve"} /\ Ok(e) /\ live # ver /\ e.ntr = ntr THEN "C13.g:answer-from-outdated-nlp"
  ELSE IF e.cls = "inplace" /\ Ok(e) THEN "C13.g:inplace-edit-changes-cache-state"
  ELSE "C13.g:" \o e.cls \o "-" \o e.out
\* declared lists: only edits may change them
DeclFail(e) == IF e.cls \in {"query", "solve", "untr", "retr"} /\ l > 1 /\ e.decl # dcl
               THEN {<<"C13.c:declaration-touched-by-" \o e.cls, l, e.op>>} ELSE {}

InitT == CInit /\ tid \in 1..Len(Traces) /\ l = 1 /\ dcl = <<>> /\ verdict = {}
StepT == /\ l <= Len(Traces[tid].events)
         /\ \/ Good(Ev) /\ verdict' = verdict \cup DeclFail(Ev)
            \/ ~ENABLED Good(Ev) /\ Resync(Ev) /\ verdict' = verdict \cup {<<Clause(Ev), l, Ev.op>>} \cup DeclFail(Ev)
         /\ dcl' = Ev.decl
         /\ l' = l + 1 /\ UNCHANGED tid
Done == l > Len(Traces[tid].events)
Report == Done => TLCSet(1, TLCGet(1) @@ (tid :> verdict))
Post == /\ \A t \in DOMAIN TLCGet(1) : PrintT(<<"VERDICT", Traces[t].id, TLCGet(1)[t]>>)
        /\ PrintT(<<"validated", Cardinality(DOMAIN TLCGet(1)), "of", Len(Traces)>>)
        /\ Cardinality(DOMAIN TLCGet(1)) = Len(Traces)
ASSUME TLCSet(1, <<>>)
=============================================================================
