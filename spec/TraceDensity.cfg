INIT Init
NEXT Next
INVARIANT Verdict
POSTCONDITION Post
CHECK_DEADLOCK FALSE
