---------------------------- MODULE TraceDensity ----------------------------
(***************************************************************************)
(* C06, DensityGrid: node positions are irrational in general, so they are *)
(* not predicted; instead the nodes *observed* on the real grid object     *)
(* (rounded to multiples of 1/128) are validated against the declarative  *)
(* definition: with E(t) = int_0^t rho / int_0^1 rho for the polynomial    *)
(* density rho, the nodes start at 0, end at 1, increase strictly and      *)
(* satisfy |E(t_i) - i/N| <= 1/64 (rounding error of the observation      *)
(* times the largest density ratio in the catalogue is below that).        *)
(* DenseEdgesGrid has no polynomial density: there the observation carries *)
(* the measured mass of every interval, which must be 1/N each.            *)
(***************************************************************************)
EXTENDS RatPoly, Json, IOUtils, TLC, FiniteSets
Obs == ndJsonDeserialize(IOEnv.TRACE_FILE)
VARIABLE i
Init == i \in 1..Len(Obs)
Next == UNCHANGED i
AbsR(a) == IF Sign(a) = -1 THEN Neg(a) ELSE a
Rho(o) == Tup([j \in 1..Len(o.density) |-> Q(o.density[j][1], o.density[j][2])])
E(o, t) == Div(PEval(PInt(Rho(o)), t), PEval(PInt(Rho(o)), One))
Node(o, k) == Q(o.nodes[k][1], o.nodes[k][2])
Equidistributed ==
  LET o == Obs[i] N == o.N
  IN /\ Len(o.nodes) = N + 1
     /\ Eq(Node(o, 1), Zero) /\ Eq(Node(o, N + 1), One)
     /\ \A k \in 1..N : Less(Node(o, k), Node(o, k + 1))
     \* arithmetic beyond 32 bits is inconclusive for that node, never a verdict
     /\ IF "mass" \in DOMAIN o
        \* densities without a polynomial form (DenseEdgesGrid: a smoothed interpolant): the observation carries, per interval,
        \* the measured share of the density's mass (quadrature of the grid object's own density between the observed nodes)
        THEN /\ Len(o.mass) = N
             /\ \A k \in 1..N : Leq(AbsR(Sub(Q(o.mass[k][1], o.mass[k][2]), Q(1, N))), Q(1, 256))
             \* a bound on the interval length acts on *every* interval: among the observed bound rows (slope of the row
             \* with respect to the free horizon) there is one for each interval's share of the horizon
             /\ \A k \in 1..N : \E j \in 1..Len(o.bslopes) :
                    Leq(AbsR(Sub(Q(o.bslopes[j][1], o.bslopes[j][2]), Sub(Node(o, k + 1), Node(o, k)))), Q(1, 1024))
        ELSE \A k \in 1..N + 1 : LET dlt == AbsR(Sub(E(o, Node(o, k)), Q(k - 1, N))) IN IsBad(dlt) \/ Leq(dlt, Q(1, 64))
Verdict == TLCSet(1, TLCGet(1) @@ (i :> Equidistributed))
Post == /\ \A k \in DOMAIN TLCGet(1) : PrintT(<<"DENSITY", Obs[k].id, TLCGet(1)[k]>>)
        /\ Cardinality(DOMAIN TLCGet(1)) = Len(Obs)
ASSUME TLCSet(1, <<>>)
=============================================================================
