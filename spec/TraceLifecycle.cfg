INIT InitT
NEXT StepT
CONSTANT Devs <- NoDevs
INVARIANT Report
POSTCONDITION Post
CHECK_DEADLOCK FALSE
