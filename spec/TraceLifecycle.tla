--------------------------- MODULE TraceLifecycle ---------------------------
(***************************************************************************)
(* Direction B: traces recorded from the real rockit object by an          *)
(* independent random driver (harness/record.py) are validated against    *)
(* Lifecycle.tla.  Every trace event carries the operation, its argument,  *)
(* the outcome and -- whenever the object reports a transcription -- the   *)
(* projection of the live NLP onto the abstract declaration (constraint    *)
(* call sites present, number of extra objective terms, horizon,           *)
(* parameter value, guess, method, solver in effect).                      *)
(* Verdicts are total: every event is consumed, and each disagreement is   *)
(* recorded with the clause it violates; many traces are validated in one  *)
(* TLC run (one initial state per trace id).                               *)
(***************************************************************************)
EXTENDS Lifecycle, Json, IOUtils

Traces == ndJsonDeserialize(IOEnv.TRACE_FILE)
VARIABLES tid, l, verdict
tvars == <<vars, tid, l, verdict>>
NoDevs == {}

Ev == Traces[tid].events[l]
Count(seq, c) == Cardinality({i \in DOMAIN seq : seq[i] = c})

Apply(e) ==
  CASE e.op = "subject_to"        -> SubjectTo(e.arg)
    [] e.op = "clear_constraints" -> ClearConstraints
    [] e.op = "add_objective"     -> AddObjective
    [] e.op = "add_state"         -> AddState
    [] e.op = "method"            -> Method(e.arg)
    [] e.op = "solver"            -> Solver(e.arg)
    [] e.op = "set_T"             -> SetT(e.arg)
    [] e.op = "set_t0"            -> SetT0(e.arg)
    [] e.op = "set_value"         -> SetValue(e.arg)
    [] e.op = "set_value_cat"     -> SetValueCat(e.arg)
    [] e.op = "set_initial"       -> SetInitial(e.arg)
    [] e.op = "sample"            -> Sample
    [] e.op = "value"             -> Value
    [] e.op = "jacobian"          -> Jacobian
    [] e.op = "solve"             -> Solve
    [] e.op = "sol_sample"        -> SolSample
    [] e.op = "save"              -> Save

(* what the NLP of abstract declaration d looks like through the recorder's projection *)
Proj(d) == [ext |-> d.ext, k0 |-> Count(d.cons, "k0"), ka |-> Count(d.cons, "ka"), kb |-> Count(d.cons, "kb"),
            nobj |-> d.nobj, T |-> d.T, t0 |-> d.t0, pval |-> d.pval, qval |-> d.qval, guess |-> d.guess, meth |-> d.meth]

Failing(e, d2, live2, tflag2, out2) ==
  LET ref == IF tflag2 THEN live2 ELSE d2          \* an implementation may keep a cache that is still current
      fields == {"ext", "k0", "ka", "kb", "nobj", "T", "t0", "pval", "qval", "guess", "meth"}
  IN (IF e.out # out2 THEN {<<"C13.d:outcome", l, e.op>>} ELSE {})
     \cup (IF e.out = "ok" /\ e.tflag
           THEN {<<"C13.a:" \o f, l, e.op>> : f \in {g \in fields : e.live[g] # Proj(ref)[g]}}
           ELSE {})
     \cup (IF e.out = "ok" /\ e.op = "solve" /\ e.solver # "unknown" /\ e.solver # ref.solver
           THEN {<<"C13.a:solver", l, e.op>>} ELSE {})

InitT == Init /\ tid \in 1..Len(Traces) /\ l = 1 /\ verdict = {}
StepT == /\ l <= Len(Traces[tid].events)
         /\ Apply(Ev)
         /\ verdict' = verdict \cup Failing(Ev, decl', live', tflag', out')
         /\ l' = l + 1 /\ UNCHANGED tid
Done == l > Len(Traces[tid].events)
Report == Done => TLCSet(1, TLCGet(1) @@ (tid :> verdict))
Post == /\ \A t \in DOMAIN TLCGet(1) : PrintT(<<"VERDICT", Traces[t].id, TLCGet(1)[t]>>)
        /\ PrintT(<<"validated", Cardinality(DOMAIN TLCGet(1)), "of", Len(Traces)>>)
        /\ Cardinality(DOMAIN TLCGet(1)) = Len(Traces)       \* every trace was consumed to its end
ASSUME TLCSet(1, <<>>)
=============================================================================
